//! D13 (C20): the outcome for an ambiguous short cluster must not depend on the `autocomplete` feature.
//! This crate builds bpaf with its default (empty) feature set; `findings/demo` builds it with `autocomplete`.
#![cfg(test)]
use bpaf::*;

#[test]
fn d13_ambiguous_cluster_is_reported_without_autocomplete_too() {
    let a1 = short('a').switch();
    let a2 = short('a').argument::<String>("X").optional();
    let b = short('b').switch();
    let p = construct!(a1, a2, b).to_options();
    let msg = p.run_inner(&["-ab"]).unwrap_err().unwrap_stderr();
    assert!(msg.contains("as both an option and an option-argument"), "{}", msg);
}
