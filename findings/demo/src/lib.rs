//! Reproductions of the genuine defects found by the /verif machinery (see /verif/DESIGN.md section 7 and
//! /verif/known_findings.json). Each test fails on the tree before the corresponding `fix:` commit and passes after it.
#![cfg(test)]
use bpaf::*;

/// D5 (C02): `-ñ=v` must mean the same as `-ñ v` / `-ñv` (non-ASCII short name with `=`)
#[test]
fn d5_non_ascii_short_name_with_equals() {
    let p = short('ñ').argument::<String>("V").to_options();
    assert_eq!(p.run_inner(&["-ñ", "v"]).unwrap(), "v");
    assert_eq!(p.run_inner(&["-ñv"]).unwrap(), "v");
    assert_eq!(p.run_inner(&["-ñ=v"]).unwrap(), "v");
    assert_eq!(p.run_inner(&["-ñ=a=b"]).unwrap(), "a=b");
    // ASCII behaviour is unchanged
    let q = short('n').argument::<String>("V").to_options();
    assert_eq!(q.run_inner(&["-n=v"]).unwrap(), "v");
    assert_eq!(q.run_inner(&["-nx=v"]).unwrap(), "x=v");
}

/// D4 (C12/C04): the short description of a command is the first line of the description, nothing more
#[test]
fn d4_first_line_stops_at_first_newline() {
    let mut doc = Doc::default();
    doc.text("Hello\nworld");
    doc.literal(" and more");
    let inner = pure(()).to_options().descr(doc).command("cmd");
    let help = inner.to_options().run_inner(&["--help"]).unwrap_err().unwrap_stdout();
    assert!(help.lines().any(|l| l.trim_start().starts_with("cmd ") && l.trim_end().ends_with(" Hello")), "{}", help);
    // multi-byte text after the newline must not be sliced at a wrong offset (used to panic)
    let mut doc = Doc::default();
    doc.text("a\nñ");
    doc.literal("ñ");
    let inner = pure(()).to_options().descr(doc).command("cmd");
    let help = inner.to_options().run_inner(&["--help"]).unwrap_err().unwrap_stdout();
    assert!(help.lines().any(|l| l.trim_start().starts_with("cmd ") && l.trim_end().ends_with(" a")), "{}", help);
}

/// D6 (C16): user text in `.TH` / `.SS` control-line arguments cannot inject roff escapes
#[test]
fn d6_backslash_in_control_line_arguments() {
    let p = short('a').switch().group_help("GR\\fBOUP \\n(.g").to_options();
    let roff = p.render_manpage("ap\\p", bpaf::doc::Section::General, None, None, None);
    for line in roff.lines().filter(|l| l.starts_with(".TH") || l.starts_with(".SS") || l.starts_with(".SH")) {
        let b = line.as_bytes();
        let mut i = 0;
        while i < b.len() {
            if b[i] == b'\\' {
                assert!(i + 1 < b.len() && (b[i + 1] == b' ' || b[i + 1] == b'\\'), "raw backslash escape in control line: {}", line);
                i += 1;
            }
            i += 1;
        }
    }
}

/// D8 (C19): a nested adjacent group takes its items from its own block, not from the left of the enclosing block
#[test]
fn d8_nested_adjacent_group_stays_inside_the_enclosing_block() {
    let inner = || {
        let tag = long("inner").req_flag(());
        let x = positional::<String>("X");
        construct!(tag, x).adjacent().map(|(_, x)| x)
    };
    let outer = {
        let tag = long("outer").req_flag(());
        let i = inner();
        construct!(tag, i).adjacent().map(|(_, i)| i)
    };
    let stray = inner().optional();
    let p = construct!(outer, stray).to_options();
    // the block of `--outer` is `--outer --inner a`; `--inner b` on its left belongs to the stray group
    assert_eq!(
        p.run_inner(&["--inner", "b", "--outer", "--inner", "a"]).unwrap(),
        ("a".to_owned(), Some("b".to_owned()))
    );
    // a block cut short is a failure, never a value pieced together from items on the left of its first item
    assert!(p.run_inner(&["--inner", "b", "--outer"]).is_err());
    assert_eq!(p.run_inner(&["--outer", "--inner", "a"]).unwrap(), ("a".to_owned(), None));
}

/// D9 (C05/C19): an adjacent command that succeeds on its second (narrowed) attempt must hand back the scope it was
/// given, not the narrowed one - otherwise every item after the first already consumed one is silently dropped
#[test]
fn d9_adjacent_command_retry_keeps_later_items_visible() {
    #[derive(Debug, Clone, PartialEq)]
    enum Cmd {
        Eat(String),
        Sleep(u32),
    }
    let eat = positional::<String>("FOOD").to_options().command("eat").adjacent().map(Cmd::Eat);
    let sleep = long("time").argument::<u32>("T").to_options().command("sleep").adjacent().map(Cmd::Sleep);
    let c = short('c').switch();
    let cmds = construct!([eat, sleep]).many();
    let p = construct!(c, cmds).to_options();
    // `-c` is claimed by the outer level first; the block `eat b` after it must not disappear
    assert_eq!(
        p.run_inner(&["eat", "a", "sleep", "--time", "5", "-c", "eat", "b"]).unwrap(),
        (true, vec![Cmd::Eat("a".into()), Cmd::Sleep(5), Cmd::Eat("b".into())])
    );
    // and an item nobody accepts is still an error
    assert!(p.run_inner(&["eat", "a", "eat", "b", "-c", "bogus"]).is_err());
}

/// D10 (C10): asking for help next to a failing adjacent group still prints help
#[test]
fn d10_help_next_to_failing_adjacent_group() {
    let point = {
        let tag = long("point").req_flag(());
        let x = positional::<u32>("X");
        let y = positional::<u32>("Y");
        construct!(tag, x, y).adjacent().map(|(_, x, y)| (x, y))
    };
    let v = short('v').switch();
    let p = construct!(v, point).to_options();
    for args in [&["--help", "--point", "1"][..], &["--point", "1", "--help", "2"][..], &["--point", "1", "--help"][..]] {
        match p.run_inner(args) {
            Err(ParseFailure::Stdout(..)) => {}
            other => panic!("{:?} should print help, got {:?}", args, other.map_err(|e| e.unwrap_stderr())),
        }
    }
}

/// D11 (C10), KNOWN FINDING, not repaired: `cmd --help` while a required option of the enclosing level is missing reports
/// the missing option instead of the help of `cmd`. This test pins the current (defective) behaviour so that the record in
/// known_findings.json stays tied to a concrete input; when bpaf is fixed this test must be flipped.
#[test]
fn d11_known_required_outer_field_masks_subcommand_help() {
    let req = long("req").argument::<u32>("N");
    let cmd = short('x').switch().to_options().descr("the command").command("cmd");
    let p = construct!(req, cmd).to_options();
    let r = p.run_inner(&["cmd", "--help"]);
    assert!(matches!(r, Err(ParseFailure::Stderr(_))), "D11 seems to be fixed: update known_findings.json");
    // with the option given, help of the innermost command is printed as C10 demands
    assert!(matches!(p.run_inner(&["--req", "1", "cmd", "--help"]), Err(ParseFailure::Stdout(..))));
}

/// D1 (C04): fish completion (revision 9) without an application name must not panic
#[test]
fn d1_fish_completion_without_app_name() {
    let p = short('a').switch().to_options();
    let r = p.run_inner(Args::from(&["--a"]).set_comp(9));
    assert!(matches!(r, Err(ParseFailure::Completion(_)) | Err(ParseFailure::Stdout(..)) | Err(ParseFailure::Stderr(_)) | Ok(_)));
}

/// D2 (C15): the zsh "nothing matches" branch must quote the typed word
#[test]
fn d2_zsh_echo_of_typed_word_is_quoted() {
    let p = short('a').switch().to_options();
    let out = p.run_inner(Args::from(&["$(id);x"]).set_name("app").set_comp(7)).unwrap_err().unwrap_stdout();
    assert_eq!(out, "compadd -- '$(id);x'\n", "{:?}", out);
}

/// D3 (C15): bash output is one directive per line, also for File/Dir completers without a mask
#[test]
fn d3_bash_filedir_directive_ends_its_line() {
    let f = short('f').help("flag").switch();
    let x = positional::<String>("X").complete_shell(ShellComp::File { mask: None });
    let p = construct!(f, x).to_options();
    let out = p.run_inner(Args::from(&[""]).set_name("app").set_comp(8)).unwrap_err().unwrap_stdout();
    for line in out.lines() {
        assert!(!(line.contains("_filedir") && line.contains("COMPREPLY")), "two directives on one line: {:?}", line);
    }
    assert!(out.contains("_filedir\n"), "{:?}", out);
}

/// D13 (C20), the `autocomplete` half: same parser, same line, same message as in findings/demo_nofeat
#[test]
fn d13_ambiguous_cluster_with_autocomplete() {
    let a1 = short('a').switch();
    let a2 = short('a').argument::<String>("X").optional();
    let b = short('b').switch();
    let p = construct!(a1, a2, b).to_options();
    let msg = p.run_inner(&["-ab"]).unwrap_err().unwrap_stderr();
    assert!(msg.contains("as both an option and an option-argument"), "{}", msg);
}

/// D14 (C16): a request argument that ends in a line break must not swallow the request that follows it
/// (`.TH .. Manual\ title\ .SH NAME` on one line: the NAME section header was lost)
#[test]
fn d14_request_argument_ending_in_newline_keeps_the_next_request_on_its_own_line() {
    let p = short('a').help("flag a").switch().to_options().descr("desc");
    let roff = p.render_manpage("app", bpaf::doc::Section::General, Some("date"), Some("me"), Some("Manual title\n"));
    let th = roff.lines().find(|l| l.starts_with(".TH")).expect("no .TH line");
    assert!(!th.contains(".SH"), "the .SH request was swallowed by the .TH line: {}", th);
    assert!(roff.lines().any(|l| l == ".SH NAME"), "{}", roff);
}

/// D7 (C04/C14): completion requested for an empty line with an env-backed flag whose variable is set must not panic
/// (`self.items.len() - 1` underflowed in `touching_last_remove`: "attempt to subtract with overflow")
#[test]
fn d7_completion_on_empty_line_with_env_backed_flag_does_not_panic() {
    std::env::set_var("VERIF_DEMO_D7", "1");
    let p = short('v').long("verbose").env("VERIF_DEMO_D7").switch().to_options();
    let r = std::panic::catch_unwind(std::panic::AssertUnwindSafe(|| p.run_inner(Args::from(&[] as &[&str]).set_comp(0))));
    assert!(r.is_ok(), "completion on an empty line panicked");
}

