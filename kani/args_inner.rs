// Kani harnesses compiled *inside* `crate::args::inner` (hook in src/args.rs) – bounded stand-ins, never counted as proved.
// K01: the window/ledger helpers the Verus tier uses through assumed contracts.
use super::*;
use std::ffi::OsString;

#[cfg(not(verif_kani_n4))]
const N: usize = 3;
#[cfg(verif_kani_n4)]
const N: usize = 4;

fn any_item_state() -> ItemState {
    match kani::any::<u8>() % 3 {
        0 => ItemState::Unparsed,
        1 => ItemState::Conflict(kani::any::<u8>() as usize % 4),
        _ => ItemState::Parsed,
    }
}

fn count_present(l: &[ItemState], lo: usize, hi: usize) -> usize {
    let mut c = 0;
    let mut i = lo;
    while i < hi {
        if l[i].present() {
            c += 1;
        }
        i += 1;
    }
    c
}

fn copy_ledger(l: &[ItemState]) -> [ItemState; N] {
    let mut out = [ItemState::Parsed; N];
    let mut i = 0;
    while i < N {
        out[i] = l[i];
        i += 1;
    }
    out
}

fn same_ledger(l: &[ItemState], b: &[ItemState; N]) -> bool {
    let mut i = 0;
    let mut ok = l.len() == N;
    while i < N {
        ok = ok && l[i] == b[i];
        i += 1;
    }
    ok
}

/// a well formed State over `n` dummy items with a symbolic ledger and a symbolic scope
pub(crate) fn any_state(n: usize) -> State {
    let mut items = Vec::with_capacity(n);
    let mut item_state = Vec::with_capacity(n);
    let mut i = 0;
    while i < n {
        items.push(Arg::Word(OsString::new()));
        item_state.push(any_item_state());
        i += 1;
    }
    let start: usize = kani::any();
    let end: usize = kani::any();
    kani::assume(start <= end && end <= n);
    let remaining = count_present(&item_state, start, end);
    State {
        items: items.into(),
        item_state,
        remaining,
        current: None,
        path: Vec::new(),
        #[cfg(feature = "autocomplete")]
        comp: None,
        scope: start..end,
    }
}

pub(crate) fn ledger(s: &State) -> &[ItemState] {
    &s.item_state
}
pub(crate) fn remaining(s: &State) -> usize {
    s.remaining
}

#[kani::proof]
#[kani::unwind(6)]
fn k01_set_scope() {
    let n: usize = N;
    let mut s = any_state(n);
    let before = copy_ledger(&s.item_state);
    let a: usize = kani::any();
    let b: usize = kani::any();
    kani::assume(a <= b && b <= n);
    kani::cover!(a < b && n == N);
    s.set_scope(a..b);
    assert!(s.scope == (a..b));
    assert!(s.remaining == count_present(&s.item_state, a, b));
    assert!(same_ledger(&s.item_state, &before));
    std::mem::forget(s);
}

#[kani::proof]
#[kani::unwind(6)]
fn k01_adjacently_available_from() {
    let n: usize = N;
    let s = any_state(n);
    let start: usize = kani::any();
    kani::assume(start <= n);
    let r = s.adjacently_available_from(start);
    // longest run of present items beginning at `start`
    assert!(r.start == start && r.end >= start && r.end <= n);
    let mut i = start;
    while i < r.end {
        assert!(s.item_state[i].present());
        i += 1;
    }
    assert!(r.end == n || !s.item_state[r.end].present());
    kani::cover!(r.end > start + 1);
    std::mem::forget(s);
}

#[kani::proof]
#[kani::unwind(6)]
fn k01_adjacent_scope() {
    let n: usize = N;
    let this = any_state(n);
    let orig = any_state(n);
    let r = this.adjacent_scope(&orig);
    let start = this.scope.start;
    // first index >= scope.start where both ledgers still have the item
    match &r {
        Some(sc) => {
            assert!(sc.start == start && sc.end >= start && sc.end < n);
            assert!(this.item_state[sc.end].present() && orig.item_state[sc.end].present());
            let mut i = start;
            while i < sc.end {
                assert!(!(this.item_state[i].present() && orig.item_state[i].present()));
                i += 1;
            }
            assert!(*sc != this.scope);
        }
        None => {
            let mut i = start;
            let mut found = n;
            while i < n {
                if found == n && this.item_state[i].present() && orig.item_state[i].present() {
                    found = i;
                }
                i += 1;
            }
            assert!(n == 0 || found == n || (start..found) == this.scope);
        }
    }
    kani::cover!(r.is_some());
    std::mem::forget(this);
    std::mem::forget(orig);
}

#[kani::proof]
#[kani::unwind(6)]
fn k01_pick_winner() {
    let n: usize = N;
    let a = any_state(n);
    let b = any_state(n);
    let (first, ix) = a.pick_winner(&b);
    match ix {
        Some(ix) => {
            assert!(ix < n);
            assert!(a.item_state[ix].present() != b.item_state[ix].present());
            assert!(first == !a.item_state[ix].present());
            let mut j = 0;
            while j < ix {
                assert!(a.item_state[j].present() == b.item_state[j].present());
                j += 1;
            }
        }
        None => {
            assert!(first);
            let mut j = 0;
            while j < n {
                assert!(a.item_state[j].present() == b.item_state[j].present());
                j += 1;
            }
        }
    }
    kani::cover!(ix.is_some() && !first);
    std::mem::forget(a);
    std::mem::forget(b);
}

#[kani::proof]
#[kani::unwind(6)]
fn k01_save_conflicts() {
    let n: usize = N;
    let mut w = any_state(n);
    let l = any_state(n);
    let before = copy_ledger(&w.item_state);
    let rem = w.remaining;
    let sc = w.scope.clone();
    let win: usize = kani::any();
    w.save_conflicts(&l, win);
    assert!(w.item_state.len() == n && w.remaining == rem && w.scope == sc);
    let mut i = 0;
    while i < n {
        if before[i].present() && !l.item_state[i].present() {
            assert!(w.item_state[i] == ItemState::Conflict(win));
        } else {
            assert!(w.item_state[i] == before[i]);
        }
        // presentness never changes
        assert!(w.item_state[i].present() == before[i].present());
        i += 1;
    }
    kani::cover!(n == N);
    std::mem::forget(w);
    std::mem::forget(l);
}

// constructors / observers for harnesses living in other modules (State's fields are private to this module)
impl State {
    pub(crate) fn verif_mk(items: Vec<Arg>, item_state: Vec<ItemState>, start: usize, end: usize) -> State {
        let remaining = count_present(&item_state, start, end);
        State {
            items: items.into(),
            item_state,
            remaining,
            current: None,
            path: Vec::new(),
            #[cfg(feature = "autocomplete")]
            comp: None,
            scope: start..end,
        }
    }
    pub(crate) fn verif_ledger(&self) -> &[ItemState] {
        &self.item_state
    }
    pub(crate) fn verif_remaining(&self) -> usize {
        self.remaining
    }
}
