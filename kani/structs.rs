// kani harnesses for this module (see /verif/DESIGN.md)
