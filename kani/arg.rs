// K03: split_os_argument (src/arg.rs) – bounded stand-in. Expectations are taken from the statement of C02:
// name = text between the dash(es) and the first `=`, value = the bytes after the first `=`, verbatim;
// a short name is one *character*, whatever follows it in the same item (when an `=` is present) is its attached value.
use super::*;
use std::os::unix::ffi::{OsStrExt, OsStringExt};

fn arg_bytes(a: &Option<Arg>) -> Option<&[u8]> {
    match a {
        Some(Arg::ArgWord(w)) => Some(w.as_bytes()),
        Some(_) => Some(b"<not an ArgWord>"),
        None => None,
    }
}

/// every ASCII string of exactly two bytes
#[kani::proof]
#[kani::unwind(6)]
fn k03_split_ascii_len2() {
    let b0: u8 = kani::any();
    let b1: u8 = kani::any();
    kani::assume(b0 < 128 && b1 < 128);
    let mut v = Vec::with_capacity(2);
    v.push(b0);
    v.push(b1);
    let os = OsString::from_vec(v);
    let r = split_os_argument(&os);
    if b0 != b'-' || b1 == b'-' {
        // a plain word, or the `--` separator itself
        assert!(r.is_none());
    } else {
        let (ty, name, val) = r.unwrap();
        assert!(ty == ArgType::Short);
        assert!(name.as_bytes().len() == 1 && name.as_bytes()[0] == b1);
        assert!(val.is_none());
        kani::cover!(b1 == b'=');
        std::mem::forget(name);
    }
    std::mem::forget(os);
}

/// every ASCII string of exactly three bytes
#[kani::proof]
#[kani::unwind(8)]
fn k03_split_ascii_len3() {
    let b0: u8 = kani::any();
    let b1: u8 = kani::any();
    let b2: u8 = kani::any();
    kani::assume(b0 < 128 && b1 < 128 && b2 < 128);
    let mut v = Vec::with_capacity(3);
    v.push(b0);
    v.push(b1);
    v.push(b2);
    let os = OsString::from_vec(v);
    let r = split_os_argument(&os);
    if b0 != b'-' {
        assert!(r.is_none());
    } else {
        let (ty, name, val) = r.unwrap();
        let nb = name.as_bytes();
        if b1 == b'-' {
            assert!(ty == ArgType::Long);
            if b2 == b'=' {
                // `--=`: empty name, empty value
                assert!(nb.len() == 0);
                assert!(arg_bytes(&val) == Some(&b""[..]));
            } else {
                assert!(nb.len() == 1 && nb[0] == b2);
                assert!(val.is_none());
            }
        } else {
            assert!(ty == ArgType::Short);
            if b2 == b'=' {
                // `-c=`: name c, empty value
                assert!(nb.len() == 1 && nb[0] == b1);
                assert!(arg_bytes(&val) == Some(&b""[..]));
            } else {
                // `-cd`: a cluster, no value yet (disambiguated later)
                assert!(nb.len() == 2 && nb[0] == b1 && nb[1] == b2);
                assert!(val.is_none());
            }
        }
        kani::cover!(ty == ArgType::Long && val.is_some());
        std::mem::forget(name);
        std::mem::forget(val);
    }
    std::mem::forget(os);
}

/// `-c=v` where c is a fixed two-byte character (ñ) and v one free byte (any value, also non UTF-8)
#[kani::proof]
#[kani::unwind(8)]
fn k03_split_nonascii_short_eq_value() {
    let v: u8 = kani::any();
    let mut b = Vec::with_capacity(5);
    b.push(b'-');
    b.push(0xC3);
    b.push(0xB1);
    b.push(b'=');
    b.push(v);
    let os = OsString::from_vec(b);
    let r = split_os_argument(&os);
    assert!(r.is_some());
    let (ty, name, val) = r.unwrap();
    assert!(ty == ArgType::Short);
    let nb = name.as_bytes();
    assert!(nb.len() == 2 && nb[0] == 0xC3 && nb[1] == 0xB1);
    let vb = arg_bytes(&val);
    assert!(vb.is_some());
    let vb = vb.unwrap();
    assert!(vb.len() == 1 && vb[0] == v);
    kani::cover!(v >= 128);
    std::mem::forget(name);
    std::mem::forget(val);
    std::mem::forget(os);
}

/// `-c=v` where c is a fixed four-byte character (🦀, lead byte 0xF0) and v one free byte:
/// the width of the short name is taken from its lead byte also at the 3/4-byte boundary of the lead-byte table
#[kani::proof]
#[kani::unwind(10)]
fn k03_split_4byte_short_eq_value() {
    let v: u8 = kani::any();
    let mut b = Vec::with_capacity(7);
    b.push(b'-');
    b.push(0xF0);
    b.push(0x9F);
    b.push(0xA6);
    b.push(0x80);
    b.push(b'=');
    b.push(v);
    let os = OsString::from_vec(b);
    let r = split_os_argument(&os);
    assert!(r.is_some());
    let (ty, name, val) = r.unwrap();
    assert!(ty == ArgType::Short);
    let nb = name.as_bytes();
    assert!(nb.len() == 4 && nb[0] == 0xF0 && nb[3] == 0x80);
    let vb = arg_bytes(&val);
    assert!(vb.is_some());
    let vb = vb.unwrap();
    assert!(vb.len() == 1 && vb[0] == v);
    kani::cover!(v >= 128);
    std::mem::forget(name);
    std::mem::forget(val);
    std::mem::forget(os);
}

/// `--c=v`, same family for a long name
#[kani::proof]
#[kani::unwind(8)]
fn k03_split_nonascii_long_eq_value() {
    let v: u8 = kani::any();
    let mut b = Vec::with_capacity(6);
    b.push(b'-');
    b.push(b'-');
    b.push(0xC3);
    b.push(0xB1);
    b.push(b'=');
    b.push(v);
    let os = OsString::from_vec(b);
    let r = split_os_argument(&os);
    assert!(r.is_some());
    let (ty, name, val) = r.unwrap();
    assert!(ty == ArgType::Long);
    let nb = name.as_bytes();
    assert!(nb.len() == 2 && nb[0] == 0xC3 && nb[1] == 0xB1);
    let vb = arg_bytes(&val).unwrap();
    assert!(vb.len() == 1 && vb[0] == v);
    kani::cover!(v >= 128);
    std::mem::forget(name);
    std::mem::forget(val);
    std::mem::forget(os);
}

/// `-cw=v`: c, w ASCII letters, v any byte: name c, value `w=v` (everything after the first character, verbatim)
#[kani::proof]
#[kani::unwind(8)]
fn k03_split_short_attached_value_with_eq() {
    let c: u8 = kani::any();
    let w: u8 = kani::any();
    let v: u8 = kani::any();
    kani::assume(c.is_ascii_alphanumeric() && w < 128 && w != b'=');
    let mut b = Vec::with_capacity(5);
    b.push(b'-');
    b.push(c);
    b.push(w);
    b.push(b'=');
    b.push(v);
    let os = OsString::from_vec(b);
    let r = split_os_argument(&os);
    assert!(r.is_some());
    let (ty, name, val) = r.unwrap();
    assert!(ty == ArgType::Short);
    let nb = name.as_bytes();
    assert!(nb.len() == 1 && nb[0] == c);
    let vb = arg_bytes(&val).unwrap();
    assert!(vb.len() == 3 && vb[0] == w && vb[1] == b'=' && vb[2] == v);
    std::mem::forget(name);
    std::mem::forget(val);
    std::mem::forget(os);
}
