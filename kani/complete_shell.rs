// K05: the single-quote escaping wrapper `Shell` (src/complete_shell.rs) – bounded: 2 / 3 ASCII characters.
// From C15: "quoted so that the shell treats it as data": the output is one single-quoted word in which every `'`
// of the input appears as `'\''` and every other byte is unchanged.
use super::*;
use std::fmt::Write;

struct Sink {
    buf: [u8; 24],
    len: usize,
}
impl std::fmt::Write for Sink {
    fn write_str(&mut self, s: &str) -> std::fmt::Result {
        let b = s.as_bytes();
        let mut i = 0;
        while i < b.len() {
            if self.len < 24 {
                self.buf[self.len] = b[i];
                self.len += 1;
            }
            i += 1;
        }
        Ok(())
    }
}

fn check(input: &[u8], n: usize) {
    let mut v = Vec::with_capacity(n);
    let mut i = 0;
    while i < n {
        v.push(input[i]);
        i += 1;
    }
    // sound: the caller assumes ASCII
    let s = unsafe { String::from_utf8_unchecked(v) };
    let mut sink = Sink { buf: [0; 24], len: 0 };
    let r = write!(sink, "{}", Shell(&s));
    assert!(r.is_ok());
    // expected text
    let mut exp = [0u8; 24];
    let mut m = 0;
    exp[m] = b'\'';
    m += 1;
    let mut i = 0;
    while i < n {
        if input[i] == b'\'' {
            exp[m] = b'\'';
            exp[m + 1] = b'\\';
            exp[m + 2] = b'\'';
            exp[m + 3] = b'\'';
            m += 4;
        } else {
            exp[m] = input[i];
            m += 1;
        }
        i += 1;
    }
    exp[m] = b'\'';
    m += 1;
    assert!(sink.len == m);
    let mut i = 0;
    while i < 24 {
        if i < m {
            assert!(sink.buf[i] == exp[i]);
        }
        i += 1;
    }
    std::mem::forget(s);
}

#[kani::proof]
#[kani::unwind(26)]
fn k05_shell_quote_ascii2() {
    let b: [u8; 2] = kani::any();
    kani::assume(b[0] < 128 && b[1] < 128);
    kani::cover!(b[0] == b'\'' && b[1] == b'\'');
    check(&b, 2);
}

#[kani::proof]
#[kani::unwind(26)]
fn k05_shell_quote_ascii3() {
    let b: [u8; 3] = kani::any();
    kani::assume(b[0] < 128 && b[1] < 128 && b[2] < 128);
    kani::cover!(b[1] == b'\'');
    check(&b, 3);
}
