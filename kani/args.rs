// K02 disambiguate_short, K04 State::construct (src/args.rs) – bounded stand-ins.
use super::*;

fn letter() -> u8 {
    let c: u8 = kani::any();
    kani::assume(c == b'a' || c == b'b' || c == b'c');
    c
}

fn set_of(a: bool, b: bool, c: bool) -> Vec<char> {
    let mut v = Vec::with_capacity(3);
    if a { v.push('a'); }
    if b { v.push('b'); }
    if c { v.push('c'); }
    v
}

fn has(v: &[char], c: u8) -> bool {
    let mut i = 0;
    let mut r = false;
    while i < v.len() {
        if v[i] == c as char { r = true; }
        i += 1;
    }
    r
}

/// K02: a two letter cluster `-xy`, x, y in {a,b,c}, declared short flags / short arguments any subsets of {a,b,c}
/// (C02: "`-abc` versus `-a -b -c` for flags (a cluster may end in a short argument with its value attached)")
#[kani::proof]
#[kani::unwind(6)]
fn k02_disambiguate_short_two_letters() {
    let x = letter();
    let y = letter();
    let flags = set_of(kani::any(), kani::any(), kani::any());
    let args = set_of(kani::any(), kani::any(), kani::any());
    let mut sv = Vec::with_capacity(2);
    sv.push(x);
    sv.push(y);
    let short = unsafe { String::from_utf8_unchecked(sv) };
    let mut ov = Vec::with_capacity(3);
    ov.push(b'-');
    ov.push(x);
    ov.push(y);
    let os = <OsString as std::os::unix::ffi::OsStringExt>::from_vec(ov);
    let mut items: Vec<Arg> = Vec::with_capacity(4);
    let (fx, ax, fy, ay) = (has(&flags, x), has(&args, x), has(&flags, y), has(&args, y));
    let r = disambiguate_short(os, short, &flags, &args, &mut items);
    if fx && ax {
        assert!(matches!(r, Some(Message::Ambiguity(0, _))));
    } else if !fx && ax {
        // x is an argument: the rest of the item is its attached value
        assert!(r.is_none() && items.len() == 2);
        assert!(matches!(&items[0], Arg::Short(c, true, _) if *c == x as char));
        assert!(matches!(&items[1], Arg::Word(w) if std::os::unix::ffi::OsStrExt::as_bytes(w.as_os_str()).len() == 1
            && std::os::unix::ffi::OsStrExt::as_bytes(w.as_os_str())[0] == y));
    } else if !fx && !ax {
        // undeclared letter: the whole item is a plain word
        assert!(r.is_none() && items.len() == 1);
        assert!(matches!(&items[0], Arg::Word(w) if std::os::unix::ffi::OsStrExt::as_bytes(w.as_os_str()).len() == 3));
    } else {
        // x is a flag
        if fy && ay {
            assert!(matches!(r, Some(Message::Ambiguity(_, _))));
        } else if fy {
            assert!(r.is_none() && items.len() == 2);
            assert!(matches!(&items[0], Arg::Short(c, false, _) if *c == x as char));
            assert!(matches!(&items[1], Arg::Short(c, false, _) if *c == y as char));
        } else if ay {
            // cluster ending in a short argument without attached value
            assert!(r.is_none() && items.len() == 2);
            assert!(matches!(&items[0], Arg::Short(c, false, _) if *c == x as char));
            assert!(matches!(&items[1], Arg::Short(c, false, _) if *c == y as char));
        } else {
            assert!(r.is_none() && items.len() == 1);
            assert!(matches!(&items[0], Arg::Word(_)));
        }
    }
    kani::cover!(fx && !ax && !fy && ay);
    std::mem::forget(items);
    std::mem::forget(flags);
    std::mem::forget(args);
    std::mem::forget(r);
}

/// K04: State::construct – the `--` rule of C09: "Everything after the first `--` is positional data ... and the separator itself
/// is never delivered as a value"; only the *first* `--` is the separator, whatever items precede it.
fn check_construct(words: Vec<OsString>, kinds: [u8; 3]) {
    let mut err = None;
    let st = State::construct(Args::from(&words[..]), &[], &[], &mut err);
    assert!(err.is_none());
    // expected shape: kind 0 = `--`, 1 = `--k=v` (two items), 2 = `x`
    let mut exp_pos = [false; 6];
    let mut exp_parsed = [false; 6];
    let mut n = 0;
    let mut seen_dd = false;
    let mut i = 0;
    while i < 3 {
        if seen_dd {
            exp_pos[n] = true;
            n += 1;
        } else if kinds[i] == 0 {
            seen_dd = true;
            exp_pos[n] = true;
            exp_parsed[n] = true;
            n += 1;
        } else if kinds[i] == 1 {
            n += 2;
        } else {
            n += 1;
        }
        i += 1;
    }
    assert!(st.items.len() == n);
    let ledger = st.verif_ledger();
    assert!(ledger.len() == n);
    let mut present = 0;
    let mut j = 0;
    while j < 6 {
        if j < n {
            assert!(matches!(st.items[j], Arg::PosWord(_)) == exp_pos[j]);
            assert!(ledger[j].parsed() == exp_parsed[j]);
            if !exp_parsed[j] {
                present += 1;
            }
        }
        j += 1;
    }
    assert!(st.verif_remaining() == present);
    std::mem::forget(st);
    std::mem::forget(words);
}

fn word(k: u8) -> OsString {
    match k {
        0 => OsString::from("--"),
        1 => OsString::from("--k=v"),
        _ => OsString::from("x"),
    }
}

/// three arguments, each `--` or `x` (8 command lines): a later `--` is data, not a second separator
#[kani::proof]
#[kani::unwind(8)]
fn k04_construct_only_first_double_dash_counts() {
    let mut kinds = [2u8; 3];
    let mut words: Vec<OsString> = Vec::with_capacity(3);
    let mut i = 0;
    while i < 3 {
        kinds[i] = if kani::any() { 0 } else { 2 };
        words.push(word(kinds[i]));
        i += 1;
    }
    kani::cover!(kinds[0] == 0 && kinds[2] == 0);
    check_construct(words, kinds);
}

/// `--k=v` (one word, two items) followed by `--` or `x`, then `x`: the separator is marked by item index, not word index
#[kani::proof]
#[kani::unwind(8)]
fn k04_construct_marker_after_two_item_word() {
    let mut kinds = [1u8, 2, 2];
    kinds[1] = if kani::any() { 0 } else { 2 };
    let mut words: Vec<OsString> = Vec::with_capacity(3);
    words.push(word(kinds[0]));
    words.push(word(kinds[1]));
    words.push(word(kinds[2]));
    kani::cover!(kinds[1] == 0);
    check_construct(words, kinds);
}
