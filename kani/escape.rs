// K08: roff escaping (src/buffer/manpage/escape.rs) – bounded: one or two fragments of two ASCII bytes.
// From C16: "every line starting with a control character is one of bpaf's own requests, so help text, names and
// metavariables can never be interpreted as roff requests or escapes".
use super::*;

fn two(c0: u8, c1: u8) -> String {
    let mut v = Vec::with_capacity(2);
    v.push(c0);
    v.push(c1);
    // sound: both bytes are assumed ASCII by the caller
    unsafe { String::from_utf8_unchecked(v) }
}

/// a backslash in the output must be the start of an escape bpaf itself produced
fn bpaf_escape(next: u8) -> bool {
    next == b'&' || next == b'\\' || next == b'-' || next == b'*' || next == b' '
}

const MAXOUT: usize = 14;

/// copy the output into a fixed array so that all later checks use constant indices
fn fixed(out: &[u8]) -> ([u8; MAXOUT], usize) {
    let mut a = [0u8; MAXOUT];
    let n = out.len();
    let mut i = 0;
    while i < MAXOUT {
        if i < n {
            a[i] = out[i];
        }
        i += 1;
    }
    (a, n)
}

fn check_text(out: &[u8], starts_line: bool) {
    assert!(out.len() <= MAXOUT);
    let (a, n) = fixed(out);
    // one pass: `line_start` = the next byte begins an output line, `esc` = the previous byte was an unconsumed backslash
    let mut line_start = starts_line;
    let mut esc = false;
    let mut i = 0;
    while i < MAXOUT {
        if i < n {
            let c = a[i];
            if esc {
                // every backslash starts an escape produced by bpaf itself
                assert!(bpaf_escape(c));
                esc = false;
                line_start = false;
            } else {
                // no output line starts with a control character
                assert!(!(line_start && (c == b'.' || c == b'\'')));
                esc = c == b'\\';
                line_start = c == b'\n';
            }
        }
        i += 1;
    }
    assert!(!esc);
}

/// K08a: one Special / SpecialNoNewline fragment of two free ASCII bytes; straight-line checks (no scanning loop):
/// the output never starts with a control character, a newline kept in the text is not followed by one either,
/// and a user backslash comes out doubled.
#[kani::proof]
#[kani::unwind(12)]
fn k08_escape_special_one_fragment() {
    let c0: u8 = kani::any();
    let c1: u8 = kani::any();
    kani::assume(c0 < 128 && c1 < 128);
    let s = two(c0, c1);
    let mode = if kani::any() { Escape::Special } else { Escape::SpecialNoNewline };
    let mut out = Vec::with_capacity(24);
    let items = [(&mode, s.as_str())];
    escape(items, &mut out, Apostrophes::DontHandle);
    assert!(out.len() >= 2);
    assert!(out[0] != b'.' && out[0] != b'\'');
    if c0 == b'\n' && mode == Escape::Special {
        // the second byte starts an output line
        assert!(out[0] == b'\n');
        assert!(out[1] != b'.' && out[1] != b'\'');
    }
    if c0 == b'\\' {
        assert!(out[0] == b'\\' && out[1] == b'\\');
    }
    if c0 == b'a' && c1 == b'\\' {
        assert!(out.len() == 3 && out[1] == b'\\' && out[2] == b'\\');
    }
    kani::cover!(c0 == b'\n' && c1 == b'.');
    std::mem::forget(out);
    std::mem::forget(s);
}

/// K08c: control-line arguments (.TH / .SH / .SS): no raw space, no raw newline, no raw backslash (one free ASCII byte + `x`)
#[kani::proof]
#[kani::unwind(12)]
fn k08_escape_spaces_control_line_argument() {
    let c0: u8 = kani::any();
    kani::assume(c0 < 128);
    let s = two(c0, b'x');
    let mode = Escape::Spaces;
    let mut out = Vec::with_capacity(16);
    let items = [(&mode, s.as_str())];
    escape(items, &mut out, Apostrophes::DontHandle);
    assert!(out.len() >= 2);
    if c0 == b' ' || c0 == b'\n' {
        assert!(out.len() == 3 && out[0] == b'\\' && out[1] == b' ' && out[2] == b'x');
    } else if c0 == b'\\' {
        assert!(out.len() == 3 && out[0] == b'\\' && out[1] == b'\\' && out[2] == b'x');
    } else {
        assert!(out.len() == 2 && out[0] == c0 && out[1] == b'x');
    }
    kani::cover!(c0 == b'\\');
    std::mem::forget(out);
    std::mem::forget(s);
}
