// K08: roff escaping (src/buffer/manpage/escape.rs) – bounded: one or two fragments of two ASCII bytes.
// From C16: "every line starting with a control character is one of bpaf's own requests, so help text, names and
// metavariables can never be interpreted as roff requests or escapes".
use super::*;

fn two(c0: u8, c1: u8) -> String {
    let mut v = Vec::with_capacity(2);
    v.push(c0);
    v.push(c1);
    // sound: both bytes are assumed ASCII by the caller
    unsafe { String::from_utf8_unchecked(v) }
}

/// a backslash in the output must be the start of an escape bpaf itself produced
fn bpaf_escape(next: u8) -> bool {
    next == b'&' || next == b'\\' || next == b'-' || next == b'*' || next == b' '
}

const MAXOUT: usize = 14;

/// copy the output into a fixed array so that all later checks use constant indices
fn fixed(out: &[u8]) -> ([u8; MAXOUT], usize) {
    let mut a = [0u8; MAXOUT];
    let n = out.len();
    let mut i = 0;
    while i < MAXOUT {
        if i < n {
            a[i] = out[i];
        }
        i += 1;
    }
    (a, n)
}

fn check_text(out: &[u8], starts_line: bool) {
    assert!(out.len() <= MAXOUT);
    let (a, n) = fixed(out);
    // one pass: `line_start` = the next byte begins an output line, `esc` = the previous byte was an unconsumed backslash
    let mut line_start = starts_line;
    let mut esc = false;
    let mut i = 0;
    while i < MAXOUT {
        if i < n {
            let c = a[i];
            if esc {
                // every backslash starts an escape produced by bpaf itself
                assert!(bpaf_escape(c));
                esc = false;
                line_start = false;
            } else {
                // no output line starts with a control character
                assert!(!(line_start && (c == b'.' || c == b'\'')));
                esc = c == b'\\';
                line_start = c == b'\n';
            }
        }
        i += 1;
    }
    assert!(!esc);
}

#[kani::proof]
#[kani::unwind(16)]
fn k08_escape_special_one_fragment() {
    let c0: u8 = kani::any();
    let c1: u8 = kani::any();
    kani::assume(c0 < 128 && c1 < 128);
    let s = two(c0, c1);
    let mode = if kani::any() { Escape::Special } else { Escape::SpecialNoNewline };
    let ap = if kani::any() { Apostrophes::Handle } else { Apostrophes::DontHandle };
    let mut out = Vec::with_capacity(24);
    let items = [(&mode, s.as_str())];
    escape(items, &mut out, ap);
    check_text(&out, true);
    kani::cover!(c0 == b'.' && c1 == b'\\');
    std::mem::forget(out);
    std::mem::forget(s);
}

#[kani::proof]
#[kani::unwind(16)]
fn k08_escape_line_start_inherited() {
    // the second fragment starts a line only because the first one ended with a newline
    let c0: u8 = kani::any();
    let c1: u8 = kani::any();
    let d0: u8 = kani::any();
    kani::assume(c0 < 128 && c1 < 128 && d0 < 128);
    let first = two(c0, c1);
    let second = two(d0, b'x');
    let m1 = if kani::any() { Escape::Unescaped } else { Escape::Special };
    kani::assume(m1 == Escape::Special || (c0 != b'\\' && c1 != b'\\' && c0 != b'.' && c0 != b'\''));
    let m2 = Escape::Special;
    let mut out = Vec::with_capacity(32);
    let items = [(&m1, first.as_str()), (&m2, second.as_str())];
    escape(items, &mut out, Apostrophes::DontHandle);
    assert!(out.len() <= MAXOUT);
    // whatever the first fragment was, no line of the output may start with `.` or `'` (the first byte is the
    // first fragment's business and is only checked when that fragment is escaped text)
    let (a, n) = fixed(&out);
    let mut line_start = m1 == Escape::Special;
    let mut i = 0;
    while i < MAXOUT {
        if i < n {
            assert!(!(line_start && (a[i] == b'.' || a[i] == b'\'')));
            line_start = a[i] == b'\n';
        }
        i += 1;
    }
    kani::cover!(c1 == b'\n' && d0 == b'.');
    std::mem::forget(out);
    std::mem::forget(first);
    std::mem::forget(second);
}

/// control-line arguments (.TH / .SH / .SS): no raw space, no raw newline, no raw backslash
#[kani::proof]
#[kani::unwind(8)]
fn k08_escape_spaces_control_line_argument() {
    let c0: u8 = kani::any();
    let c1: u8 = kani::any();
    kani::assume(c0 < 128 && c1 < 128);
    let s = two(c0, c1);
    let mode = Escape::Spaces;
    let mut out = Vec::with_capacity(16);
    let items = [(&mode, s.as_str())];
    escape(items, &mut out, Apostrophes::DontHandle);
    assert!(out.len() <= 4);
    let mut i = 0;
    let mut skip = false;
    while i < 4 {
        if i < out.len() {
            if skip {
                skip = false;
            } else {
                assert!(out[i] != b' ' && out[i] != b'\n');
                if out[i] == b'\\' {
                    assert!(i + 1 < out.len() && (out[i + 1] == b' ' || out[i + 1] == b'\\'));
                    skip = true;
                }
            }
        }
        i += 1;
    }
    kani::cover!(c0 == b'\\');
    std::mem::forget(out);
    std::mem::forget(s);
}
