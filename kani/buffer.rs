// K14: Doc::first_line (src/buffer.rs) – bounded: two Text tokens over a payload of 2 + 2 ASCII bytes.
// From C12 ("each subcommand with its description") and C04 (never panics): the short description is the text
// of the description up to its first line break – nothing after it, nothing twice.
use super::*;

#[kani::proof]
#[kani::unwind(8)]
fn k14_first_line_two_tokens() {
    let b: [u8; 4] = kani::any();
    kani::assume(b[0] < 128 && b[1] < 128 && b[2] < 128 && b[3] < 128);
    let mut v = Vec::with_capacity(4);
    v.push(b[0]);
    v.push(b[1]);
    v.push(b[2]);
    v.push(b[3]);
    // sound: all four bytes are ASCII
    let payload = unsafe { String::from_utf8_unchecked(v) };
    let mut tokens = Vec::with_capacity(2);
    tokens.push(Token::Text { bytes: 2, style: Style::Text });
    tokens.push(Token::Text { bytes: 2, style: Style::Literal });
    let doc = Doc { payload, tokens };
    let r = doc.first_line();
    assert!(r.is_some());
    let r = r.unwrap();
    // expected: the prefix of the payload up to (not including) the first newline
    let mut n = 0;
    while n < 4 && b[n] != b'\n' {
        n += 1;
    }
    let out = r.payload.as_bytes();
    assert!(out.len() == n);
    let mut i = 0;
    while i < 4 {
        if i < n {
            assert!(out[i] == b[i]);
        }
        i += 1;
    }
    // token lengths add up to the payload
    let mut total = 0;
    let mut k = 0;
    while k < 2 {
        if k < r.tokens.len() {
            if let Token::Text { bytes, .. } = r.tokens[k] {
                total += bytes;
            }
        }
        k += 1;
    }
    assert!(total == n);
    kani::cover!(b[0] == b'\n');
    kani::cover!(b[1] == b'\n' && b[2] == b'\n');
    std::mem::forget(r);
    std::mem::forget(doc);
}

/// three tokens of one byte each: the payload offset has to advance token by token
#[kani::proof]
#[kani::unwind(8)]
fn k14_first_line_three_tokens() {
    let b: [u8; 3] = kani::any();
    kani::assume(b[0] < 128 && b[1] < 128 && b[2] < 128);
    let mut v = Vec::with_capacity(3);
    v.push(b[0]);
    v.push(b[1]);
    v.push(b[2]);
    let payload = unsafe { String::from_utf8_unchecked(v) };
    let mut tokens = Vec::with_capacity(3);
    tokens.push(Token::Text { bytes: 1, style: Style::Text });
    tokens.push(Token::Text { bytes: 1, style: Style::Literal });
    tokens.push(Token::Text { bytes: 1, style: Style::Text });
    let doc = Doc { payload, tokens };
    let r = doc.first_line().unwrap();
    let mut n = 0;
    while n < 3 && b[n] != b'\n' {
        n += 1;
    }
    let out = r.payload.as_bytes();
    assert!(out.len() == n);
    if n > 0 { assert!(out[0] == b[0]); }
    if n > 1 { assert!(out[1] == b[1]); }
    if n > 2 { assert!(out[2] == b[2]); }
    kani::cover!(n == 3);
    std::mem::forget(r);
    std::mem::forget(doc);
}
