// K10: environment fallback of ParseFlag::eval / ParseArgument::take_argument (src/params.rs) – bounded: 2 items.
// `std::env::var_os` is replaced by a nondeterministic stub, so every environment state is covered (C18).
use super::*;
use crate::args::ItemState;

static mut ENV_READS: usize = 0;
static mut ENV_UNDECLARED_READ: bool = false;
// what the (single) read of the declared variable found: the harness' oracle for "the variable is set"
static mut ENV_SET: bool = false;

fn stub_var_os<K: AsRef<std::ffi::OsStr>>(key: K) -> Option<OsString> {
    let k = std::os::unix::ffi::OsStrExt::as_bytes(key.as_ref());
    unsafe {
        ENV_READS += 1;
        // the only declared variable of the harness parsers is "V"
        if !(k.len() == 1 && k[0] == b'V') {
            ENV_UNDECLARED_READ = true;
        }
    }
    let set: bool = kani::any();
    unsafe {
        ENV_SET = set;
    }
    if set {
        let mut v = Vec::with_capacity(1);
        v.push(b'e');
        Some(<OsString as std::os::unix::ffi::OsStringExt>::from_vec(v))
    } else {
        None
    }
}

// the other std entry point for reading a variable: same environment model; a set variable may hold non-UTF-8 data,
// which `var` reports as an error although the variable is set (only reached if the code under test calls `std::env::var`)
fn stub_var<K: AsRef<std::ffi::OsStr>>(key: K) -> Result<String, std::env::VarError> {
    let k = std::os::unix::ffi::OsStrExt::as_bytes(key.as_ref());
    unsafe {
        ENV_READS += 1;
        if !(k.len() == 1 && k[0] == b'V') {
            ENV_UNDECLARED_READ = true;
        }
    }
    let set: bool = kani::any();
    unsafe {
        ENV_SET = set;
    }
    if !set {
        Err(std::env::VarError::NotPresent)
    } else if kani::any() {
        let mut v = Vec::with_capacity(1);
        v.push(b'e');
        Ok(unsafe { String::from_utf8_unchecked(v) })
    } else {
        let mut v = Vec::with_capacity(1);
        v.push(0xffu8);
        Err(std::env::VarError::NotUnicode(<OsString as std::os::unix::ffi::OsStringExt>::from_vec(v)))
    }
}

fn any_arg() -> (Arg, u8) {
    let k: u8 = kani::any();
    kani::assume(k < 3);
    let a = match k {
        0 => Arg::Short('a', false, OsString::new()),
        1 => Arg::Short('b', false, OsString::new()),
        _ => Arg::Word(OsString::new()),
    };
    (a, k)
}

fn two_item_state() -> (State, u8, u8, bool, bool) {
    let (a0, k0) = any_arg();
    let (a1, k1) = any_arg();
    let mut items = Vec::with_capacity(2);
    items.push(a0);
    items.push(a1);
    let p0: bool = kani::any();
    let p1: bool = kani::any();
    let mut ledger = Vec::with_capacity(2);
    ledger.push(if p0 { ItemState::Unparsed } else { ItemState::Parsed });
    ledger.push(if p1 { ItemState::Unparsed } else { ItemState::Parsed });
    (State::verif_mk(items, ledger, 0, 2), k0, k1, p0, p1)
}

fn named_a_env() -> NamedArg {
    let mut short = Vec::with_capacity(1);
    short.push('a');
    let mut env = Vec::with_capacity(1);
    env.push("V");
    NamedArg { short, long: Vec::new(), env, help: None }
}

#[kani::proof]
#[kani::unwind(6)]
#[kani::stub(std::env::var_os, stub_var_os)]
#[kani::stub(std::env::var, stub_var)]
fn k10_flag_line_beats_env() {
    let (mut st, k0, k1, p0, p1) = two_item_state();
    let absent: Option<u8> = if kani::any() { Some(0) } else { None };
    let has_absent = absent.is_some();
    let p = ParseFlag { present: 1u8, absent, named: named_a_env() };
    let on_line = (k0 == 0 && p0) || (k1 == 0 && p1);
    let before = st.verif_remaining();
    let r = p.eval(&mut st);
    let reads = unsafe { ENV_READS };
    assert!(!unsafe { ENV_UNDECLARED_READ });
    if on_line {
        // present on the line: the variable is not even consulted, exactly one item consumed
        assert!(matches!(r, Ok(1)));
        assert!(reads == 0);
        assert!(st.verif_remaining() + 1 == before);
    } else {
        assert!(st.verif_remaining() == before);
        assert!(reads == 1);
        let set = unsafe { ENV_SET };
        match &r {
            Ok(1) => assert!(set),                         // variable set: the flag counts as present
            Ok(0) => assert!(has_absent && !set),          // both absent: the declared absent value
            Err(Error(Message::Missing(_))) => assert!(!has_absent && !set),
            _ => assert!(false),
        }
    }
    kani::cover!(on_line);
    kani::cover!(!on_line && matches!(r, Ok(1)));
    std::mem::forget(r);
    std::mem::forget(st);
    std::mem::forget(p);
}

#[kani::proof]
#[kani::unwind(6)]
#[kani::stub(std::env::var_os, stub_var_os)]
#[kani::stub(std::env::var, stub_var)]
fn k10_argument_line_beats_env() {
    let (mut st, k0, k1, p0, p1) = two_item_state();
    let p: ParseArgument<String> = ParseArgument { ty: PhantomData, named: named_a_env(), metavar: "M", adjacent: false };
    // `-a` at 0 followed by an available word at 1 is the only complete occurrence
    let key_at0 = k0 == 0 && p0;
    let key_at1 = k1 == 0 && p1;
    let before = st.verif_remaining();
    let r = p.take_argument(&mut st);
    let reads = unsafe { ENV_READS };
    assert!(!unsafe { ENV_UNDECLARED_READ });
    if key_at0 {
        assert!(reads == 0);
        if k1 == 2 && p1 {
            assert!(r.is_ok());
            assert!(st.verif_remaining() + 2 == before);
        } else {
            // name present, value missing: final error, the variable is not used to paper over it
            assert!(matches!(r, Err(Error(Message::NoArgument(0, _)))));
            assert!(st.verif_remaining() == before);
        }
    } else if key_at1 {
        assert!(reads == 0);
        assert!(matches!(r, Err(Error(Message::NoArgument(1, _)))));
    } else {
        assert!(reads == 1);
        assert!(st.verif_remaining() == before);
        let set = unsafe { ENV_SET };
        match &r {
            // variable set (whatever bytes it holds): its value is used
            Ok(v) => assert!(set && std::os::unix::ffi::OsStrExt::as_bytes(v.as_os_str()).len() == 1),
            Err(Error(Message::Missing(_))) => assert!(!set),
            _ => assert!(false),
        }
    }
    kani::cover!(key_at0 && r.is_ok());
    kani::cover!(!key_at0 && !key_at1 && r.is_ok());
    std::mem::forget(r);
    std::mem::forget(st);
    std::mem::forget(p);
}

// K12: ParseCommand::eval (plain, not adjacent) – bounded: command name + 2 further items with every ledger.
// From C08: "from then on the items to its right ... are judged by the subcommand's own parser": the inner parser must see
// exactly the items from the command name to the end of the enclosing scope, whatever the enclosing level already claimed.
static mut SEEN_START: usize = usize::MAX;
static mut SEEN_END: usize = usize::MAX;

struct ScopeProbe;
impl Parser<()> for ScopeProbe {
    fn eval(&self, args: &mut State) -> Result<(), Error> {
        let sc = args.scope();
        unsafe {
            SEEN_START = sc.start;
            SEEN_END = sc.end;
        }
        // claim everything that is offered so that the level finishes without leftovers (no error rendering)
        let mut i = sc.start;
        while i < sc.end {
            args.remove(i);
            i += 1;
        }
        Ok(())
    }
    fn meta(&self) -> Meta {
        Meta::Skip
    }
}

/// an `Info` without any text (Info::default() builds Docs from strings, which is what made CBMC run out of memory)
fn cheap_info() -> crate::info::Info {
    crate::info::Info {
        version: None,
        descr: None,
        header: None,
        footer: None,
        usage: None,
        help_arg: NamedArg { short: Vec::new(), long: Vec::new(), env: Vec::new(), help: None },
        version_arg: NamedArg { short: Vec::new(), long: Vec::new(), env: Vec::new(), help: None },
        help_if_no_args: false,
        max_width: 100,
    }
}

#[kani::proof]
#[kani::unwind(6)]
fn k12_command_scope_is_name_to_end() {
    let mut items = Vec::with_capacity(3);
    let mut name = Vec::with_capacity(1);
    name.push(b'c');
    items.push(Arg::Word(<OsString as std::os::unix::ffi::OsStringExt>::from_vec(name)));
    items.push(Arg::Word(OsString::new()));
    items.push(Arg::Word(OsString::new()));
    let p1: bool = kani::any();
    let p2: bool = kani::any();
    let mut ledger = Vec::with_capacity(3);
    ledger.push(ItemState::Unparsed);
    ledger.push(if p1 { ItemState::Unparsed } else { ItemState::Parsed });
    ledger.push(if p2 { ItemState::Unparsed } else { ItemState::Parsed });
    let mut st = State::verif_mk(items, ledger, 0, 3);
    let mut longs = Vec::with_capacity(1);
    longs.push("c");
    let cmd = ParseCommand {
        longs,
        shorts: Vec::new(),
        help: None,
        subparser: OptionParser { inner: Box::new(ScopeProbe), info: cheap_info() },
        adjacent: false,
    };
    let r = cmd.eval(&mut st);
    assert!(r.is_ok());
    assert!(unsafe { SEEN_START } == 0);
    assert!(unsafe { SEEN_END } == 3);
    assert!(st.verif_remaining() == 0);
    kani::cover!(!p1 && p2);
    std::mem::forget(r);
    std::mem::forget(st);
    std::mem::forget(cmd);
}

/// K12b: an *adjacent* command (success on the first attempt): the inner parser sees exactly the run of available items right
/// after the name, and the enclosing scope is handed back afterwards (C19 "adjacent commands", C05 scope restoration)
#[kani::proof]
#[kani::unwind(6)]
fn k12_adjacent_command_scope() {
    let mut items = Vec::with_capacity(3);
    let mut name = Vec::with_capacity(1);
    name.push(b'c');
    items.push(Arg::Word(<OsString as std::os::unix::ffi::OsStringExt>::from_vec(name)));
    items.push(Arg::Word(OsString::new()));
    items.push(Arg::Word(OsString::new()));
    let p1: bool = kani::any();
    let p2: bool = kani::any();
    let mut ledger = Vec::with_capacity(3);
    ledger.push(ItemState::Unparsed);
    ledger.push(if p1 { ItemState::Unparsed } else { ItemState::Parsed });
    ledger.push(if p2 { ItemState::Unparsed } else { ItemState::Parsed });
    let mut st = State::verif_mk(items, ledger, 0, 3);
    let mut longs = Vec::with_capacity(1);
    longs.push("c");
    let cmd = ParseCommand {
        longs,
        shorts: Vec::new(),
        help: None,
        subparser: OptionParser { inner: Box::new(ScopeProbe), info: cheap_info() },
        adjacent: true,
    };
    let r = cmd.eval(&mut st);
    assert!(r.is_ok());
    // the block offered to the inner parser: the available items directly after the name
    let exp_end = if !p1 { 1 } else if !p2 { 2 } else { 3 };
    assert!(unsafe { SEEN_START } == 1);
    assert!(unsafe { SEEN_END } == exp_end);
    // the enclosing scope (from the name to the end) is handed back; an available item behind a gap is still there
    let sc = st.scope();
    assert!(sc.start == 0 && sc.end == 3);
    assert!(st.verif_remaining() == if !p1 && p2 { 1 } else { 0 });
    kani::cover!(!p1 && p2);
    std::mem::forget(r);
    std::mem::forget(st);
    std::mem::forget(cmd);
}

// K12c: adjacent command, retry path: the first attempt (on all adjacently available items) fails after claiming the first
// item, the retry on the narrowed block succeeds. Guards D9 (scope handed back is the one the command was given) and the
// ledger handed back is the successful attempt's.
static mut CALLS: usize = 0;
static mut SECOND_START: usize = usize::MAX;
static mut SECOND_END: usize = usize::MAX;

struct FailThenClaim;
impl Parser<()> for FailThenClaim {
    fn eval(&self, args: &mut State) -> Result<(), Error> {
        let sc = args.scope();
        let n = unsafe {
            CALLS += 1;
            CALLS
        };
        if n == 1 {
            // claim the first offered item, then fail with a final message (no rendering involved)
            args.remove(sc.start);
            Err(Error(Message::ParseFailure(crate::ParseFailure::Stderr(Doc::default()))))
        } else {
            unsafe {
                SECOND_START = sc.start;
                SECOND_END = sc.end;
            }
            let mut i = sc.start;
            while i < sc.end {
                args.remove(i);
                i += 1;
            }
            Ok(())
        }
    }
    fn meta(&self) -> Meta {
        Meta::Skip
    }
}

#[kani::proof]
#[kani::unwind(24)]
fn k12_adjacent_command_retry() {
    // c w1 w2 : all three available; the first attempt sees [1,3), claims 1 and fails; the retry sees [1,2)
    let mut items = Vec::with_capacity(3);
    let mut name = Vec::with_capacity(1);
    name.push(b'c');
    items.push(Arg::Word(<OsString as std::os::unix::ffi::OsStringExt>::from_vec(name)));
    items.push(Arg::Word(OsString::new()));
    items.push(Arg::Word(OsString::new()));
    let mut ledger = Vec::with_capacity(3);
    ledger.push(ItemState::Unparsed);
    ledger.push(ItemState::Unparsed);
    ledger.push(ItemState::Unparsed);
    let mut st = State::verif_mk(items, ledger, 0, 3);
    let mut longs = Vec::with_capacity(1);
    longs.push("c");
    let cmd = ParseCommand {
        longs,
        shorts: Vec::new(),
        help: None,
        subparser: OptionParser { inner: Box::new(FailThenClaim), info: cheap_info() },
        adjacent: true,
    };
    let r = cmd.eval(&mut st);
    assert!(unsafe { CALLS } == 2);
    assert!(r.is_ok());
    assert!(unsafe { SECOND_START } == 1 && unsafe { SECOND_END } == 2);
    // D9: the scope handed back is the command's own (name .. end), so the untouched third item is still visible
    let sc = st.scope();
    assert!(sc.start == 0 && sc.end == 3);
    assert!(st.verif_remaining() == 1);
    let l = st.verif_ledger();
    assert!(l[0].parsed() && l[1].parsed() && !l[2].parsed());
    std::mem::forget(r);
    std::mem::forget(st);
    std::mem::forget(cmd);
}
