// K13: Meta::peek_front_ty (src/meta_help.rs) – bounded: a group (And / Or) of three children, each one of
// { hidden (Skip), Optional(hidden), a flag, a positional }.
// From C12 ("lists every item a user can pass ... items under `hide` do not appear"): the list a decorated group
// goes to is the list of the first item the group actually shows – hidden children in front of it do not count,
// and a group that shows nothing has no list.
use super::*;

fn k13_child(sel: u8) -> (Meta, Option<HiTy>) {
    match sel {
        0 => (Meta::Skip, None),
        1 => (Meta::Optional(Box::new(Meta::Skip)), None),
        2 => (
            Meta::Item(Box::new(Item::Flag {
                name: ShortLong::Short('a'),
                shorts: Vec::new(),
                env: None,
                help: None,
            })),
            Some(HiTy::Flag),
        ),
        _ => (
            Meta::Item(Box::new(Item::Positional {
                metavar: Metavar("X"),
                help: None,
            })),
            Some(HiTy::Positional),
        ),
    }
}

#[kani::proof]
#[kani::unwind(6)]
fn k13_peek_front_ty_group_of_three() {
    let s0: u8 = kani::any();
    let s1: u8 = kani::any();
    let s2: u8 = kani::any();
    kani::assume(s0 < 4 && s1 < 4 && s2 < 4);
    let (m0, t0) = k13_child(s0);
    let (m1, t1) = k13_child(s1);
    let (m2, t2) = k13_child(s2);
    let mut xs = Vec::with_capacity(3);
    xs.push(m0);
    xs.push(m1);
    xs.push(m2);
    let and: bool = kani::any();
    let m = if and { Meta::And(xs) } else { Meta::Or(xs) };
    let got = m.peek_front_ty();
    let expected = if t0.is_some() {
        t0
    } else if t1.is_some() {
        t1
    } else {
        t2
    };
    assert!(got == expected);
    kani::cover!(s0 == 0 && s1 == 1 && s2 == 3 && got == Some(HiTy::Positional));
    kani::cover!(got.is_none());
    std::mem::forget(m);
}
