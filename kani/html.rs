// K09: change_style (src/buffer/html.rs) – loop free, all 8 x 8 style pairs: complete.
use super::*;

#[kani::proof]
fn k09_change_style_all_pairs() {
    let mut cur = Styles { mono: kani::any(), bold: kani::any(), italic: kani::any() };
    let new = Styles { mono: kani::any(), bold: kani::any(), italic: kani::any() };
    let (cm, cb, ci) = (cur.mono, cur.bold, cur.italic);
    let mut res = String::with_capacity(64);
    change_style(&mut res, &mut cur, new);
    let out = res.as_bytes();
    // expected: close what is open in reverse nesting order (i, b, tt), then open the new set (tt, b, i)
    let mut exp = [0u8; 32];
    let mut n = 0;
    let mut put = |s: &[u8], exp: &mut [u8; 32], n: &mut usize| {
        let mut i = 0;
        while i < s.len() {
            exp[*n] = s[i];
            *n += 1;
            i += 1;
        }
    };
    if ci { put(b"</i>", &mut exp, &mut n); }
    if cb { put(b"</b>", &mut exp, &mut n); }
    if cm { put(b"</tt>", &mut exp, &mut n); }
    if new.mono { put(b"<tt>", &mut exp, &mut n); }
    if new.bold { put(b"<b>", &mut exp, &mut n); }
    if new.italic { put(b"<i>", &mut exp, &mut n); }
    assert!(out.len() == n);
    let mut i = 0;
    while i < 32 {
        if i < n {
            assert!(out[i] == exp[i]);
        }
        i += 1;
    }
    assert!(cur.mono == new.mono && cur.bold == new.bold && cur.italic == new.italic);
    kani::cover!(n == 23);
    std::mem::forget(res);
}
