#!/bin/sh
# run every claimed check once (quick tier by default) and print one line per property
cd "$(dirname "$0")/.."
tier=${1:-quick}
for p in $(python3 -c "import sys; sys.path.insert(0,'engine'); import props; print(' '.join(sorted(props.PROPS)))"); do
  out=$(./check $p $tier 2>&1); rc=$?
  echo "$p rc=$rc $(echo "$out" | grep -E '^OK|^VIOLATION|^UNDECIDED|^KNOWN' | head -3 | cut -c1-160 | tr '\n' '|')"
done
