#!/bin/sh
# usage: tools/seed_matrix.sh ['glob']   (default: every seed)
# for every confirmed seeded change: apply it to /repo's working tree, run the Verus tier once plus the quick check of its target property, undo
cd "$(dirname "$0")/.."
for d in seeded/${1:-*}/; do
  id=$(basename $d); pid=$(echo ${id%%-*} | cut -c1-3)
  echo "=== $id"
  python3 tools/seed_eval.py /verif/$d/patch.diff --check $pid 2>&1 | grep -v WARNING | cut -c1-500
done
git -C /repo status --short
