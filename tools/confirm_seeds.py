#!/usr/bin/env python3
"""Confirm every seeded change delivered by the sub-agents in a scratch worktree of /repo HEAD:
the patch applies and compiles, the pinned suite has the baseline outcome with it, the demo fails with it and passes without.
Confirmed seeds are copied to /verif/seeded/<id>/ with a meta.json."""
import json, os, re, shutil, subprocess, sys, glob
WT = "/tmp/wt/confirm"
SUITE = ["cargo", "nextest", "run", "--workspace", "--no-fail-fast", "--tool-config-file", "pb:/w/lib/nextest.toml", "--profile", "pb", "--test-threads", "8", "--offline"]
WHY = json.load(open("/verif/tools/seed_notes.json")) if os.path.exists("/verif/tools/seed_notes.json") else {}

def sh(cmd, cwd=WT, timeout=3000):
    return subprocess.run(cmd, cwd=cwd, capture_output=True, text=True, timeout=timeout)

def suite():
    p = sh(SUITE)
    out = p.stdout + p.stderr
    m = re.search(r"(\d+) tests run: (\d+) passed, (\d+) failed", out)
    fails = sorted(set(re.findall(r"^\s+FAIL \[[^\]]*\] \(\s*\d+/\d+\)\s+(.*)$", out, re.M)))
    return (int(m.group(2)), int(m.group(3))) if m else None, fails

def demo():
    p = sh(["cargo", "test", "--offline", "--features", "autocomplete,docgen,batteries,derive", "--test", "seeded_demo"])
    out = p.stdout + p.stderr
    m = re.search(r"test result: (\w+)\. (\d+) passed; (\d+) failed", out)
    return (m.group(1), int(m.group(2)), int(m.group(3))) if m else ("build-error", 0, 0), out[-1500:]

def main():
    sel = sys.argv[1:]
    if not os.path.exists(WT):
        subprocess.run(["git", "-C", "/repo", "worktree", "add", "--detach", WT, "HEAD", "-q"], check=True)
    head = subprocess.run(["git", "-C", "/repo", "rev-parse", "--short", "HEAD"], capture_output=True, text=True).stdout.strip()
    sh(["git", "checkout", "-q", "--detach", head]); sh(["git", "checkout", "HEAD", "--", "."])
    base_counts, base_fails = suite()
    print("baseline at", head, base_counts, len(base_fails), flush=True)
    for d in sorted(glob.glob("/tmp/wt/C*/_seeded/m*")):
        pid = d.split("/")[3]; m = os.path.basename(d); sid = "%s-%s" % (pid, m)
        if sel and not any(s in sid for s in sel):
            continue
        patch = os.path.join(d, "patch.diff"); dm = os.path.join(d, "demo.rs")
        if not (os.path.exists(patch) and os.path.exists(dm)):
            print(sid, "incomplete delivery"); continue
        sh(["git", "checkout", "HEAD", "--", "."]); 
        if os.path.exists(os.path.join(WT, "tests/seeded_demo.rs")): os.remove(os.path.join(WT, "tests/seeded_demo.rs"))
        a = sh(["git", "apply", patch])
        if a.returncode != 0:
            print(sid, "patch does not apply to HEAD:", a.stderr.strip()[:200]); continue
        counts, fails = suite()
        shutil.copy(dm, os.path.join(WT, "tests/seeded_demo.rs"))
        with_change, tail1 = demo()
        sh(["git", "checkout", "HEAD", "--", "src", "Cargo.toml"])
        without_change, tail2 = demo()
        os.remove(os.path.join(WT, "tests/seeded_demo.rs"))
        ok = counts == base_counts and fails == base_fails and with_change[0] == "FAILED" and with_change[2] > 0 and without_change[0] == "ok"
        print("%-8s suite=%s same_failset=%s demo_with=%s demo_without=%s => %s" % (sid, counts, fails == base_fails, with_change, without_change, "CONFIRMED" if ok else "REJECTED"), flush=True)
        if ok:
            dst = os.path.join("/verif/seeded", sid)
            os.makedirs(dst, exist_ok=True)
            for f in ("patch.diff", "demo.rs", "notes.md"):
                if os.path.exists(os.path.join(d, f)):
                    shutil.copy(os.path.join(d, f), os.path.join(dst, f))
            meta = {"id": sid, "property": pid, "base_commit": head,
                    "needs_to_manifest": WHY.get(sid, "see notes.md (written by the independent sub-agent)"),
                    "confirmed": {"suite_with_change": "%d passed, %d failed (same failing set as baseline: %s)" % (counts[0], counts[1], fails == base_fails),
                                  "demo_with_change": "%s (%d passed, %d failed)" % with_change,
                                  "demo_without_change": "%s (%d passed, %d failed)" % without_change,
                                  "commands": [" ".join(SUITE), "cargo test --offline --features autocomplete,docgen,batteries,derive --test seeded_demo (demo.rs placed as tests/seeded_demo.rs)"],
                                  "worktree": "scratch git worktree of /repo at %s under /tmp (removed afterwards)" % head}}
            json.dump(meta, open(os.path.join(dst, "meta.json"), "w"), indent=1)
    sh(["git", "checkout", "HEAD", "--", "."])

if __name__ == "__main__":
    main()
