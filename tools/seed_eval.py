#!/usr/bin/env python3
"""Evaluate the checks against a seeded change: apply patch to /repo's working tree (never committed), run the Verus tier
once per configuration and report failing obligations per property; optionally run the full quick checks of given properties.
usage: tools/seed_eval.py <patch.diff> [--check C05,C01]"""
import json, os, subprocess, sys, time
ROOT = os.path.dirname(os.path.dirname(os.path.abspath(__file__)))
sys.path.insert(0, os.path.join(ROOT, "engine"))
import verus_run

def main():
    patch = sys.argv[1]
    checks = []
    if "--check" in sys.argv:
        checks = sys.argv[sys.argv.index("--check") + 1].split(",")
    st = subprocess.run(["git", "-C", "/repo", "status", "--porcelain", "--untracked-files=no"], capture_output=True, text=True).stdout.strip()
    if st:
        print("refusing: /repo working tree is not clean:\n" + st); return 2
    p = subprocess.run(["git", "-C", "/repo", "apply", patch], capture_output=True, text=True)
    if p.returncode != 0:
        p = subprocess.run(["git", "-C", "/repo", "apply", "--3way", patch], capture_output=True, text=True)
    if p.returncode != 0:
        print("patch does not apply:", p.stderr); subprocess.run(["git", "-C", "/repo", "checkout", "HEAD", "--", "."]); return 2
    out = {"patch": patch, "verus": {}, "checks": {}}
    try:
        for cname, cfgs in (("default", []), ("autocomplete", ['feature="autocomplete"']), ("docgen", ['feature="docgen"'])):
            r = verus_run.run("/repo", os.path.join(ROOT, "contracts", "main.rs.tpl"), os.path.join(ROOT, "out", "seed_eval", cname), cfgs, name="bpaf_" + cname)
            if r.fatal:
                out["verus"][cname] = {"fatal": r.fatal[:600]}
                print("[%s] cannot decide: %s" % (cname, r.fatal[:300]))
                continue
            byprop = {}
            for f in r.failures:
                for t in (f.tags or ["(untagged)"]) + ["C04"]:
                    byprop.setdefault(t, set()).add(f.obligation)
            out["verus"][cname] = {k: sorted(v) for k, v in byprop.items()}
            print("[%s] failing obligations: %s" % (cname, sorted({f.obligation for f in r.failures}) or "none"))
            print("[%s] properties raising: %s" % (cname, sorted(byprop)))
        for pid in checks:
            t0 = time.time()
            c = subprocess.run([os.path.join(ROOT, "check"), pid, "quick"], capture_output=True, text=True, cwd=ROOT,
                               env=dict(os.environ, VERIF_EVIDENCE_DIR=os.path.join(ROOT, "out", "seed_eval", "evidence")))
            obl = [l for l in c.stdout.split("\n") if l.startswith("failed obligation") or l.startswith("VIOLATION") or l.startswith("UNDECIDED") or l.startswith("  - ")]
            out["checks"][pid] = {"rc": c.returncode, "lines": obl[:12]}
            print("check %s quick -> rc=%d (%.0fs) %s" % (pid, c.returncode, time.time() - t0, "; ".join(obl[:4])[:400]))
    finally:
        subprocess.run(["git", "-C", "/repo", "checkout", "HEAD", "--", "."])
        subprocess.run(["git", "-C", "/repo", "clean", "-fdq", "--", "src"], capture_output=True)
    print(json.dumps(out)[:0])
    return 0

if __name__ == "__main__":
    sys.exit(main())
