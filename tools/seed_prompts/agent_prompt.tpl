You are helping to evaluate a verification framework by producing a realistic *seeded bug* in the Rust crate `bpaf` (a command-line argument parser).

Your private scratch git worktree of the crate is at: /tmp/wt/{PID}   (work ONLY inside this directory; never touch /repo or /verif or other /tmp/wt/* directories; never commit anything)

The property the bug must break:

{PROP}

Task:
1. Read the crate source under /tmp/wt/{PID}/src to understand the code that makes this property hold.
2. Make TWO different, independent small source changes (call them m1 and m2; produce them one after the other, resetting the tree in between with `git -C /tmp/wt/{PID} checkout -- src`) to the library code under /tmp/wt/{PID}/src (not tests, not docs) such that, for each change:
   - the crate still compiles, and the existing test suite still passes exactly as at baseline. The baseline command (run it from /tmp/wt/{PID}) is:
       cargo nextest run --workspace --no-fail-fast --tool-config-file pb:/w/lib/nextest.toml --profile pb --test-threads 8 --offline
     At baseline its summary is "572 tests run: 547 passed, 25 failed, 1 skipped"; the 25 failing ones (comptester::*, docs2 derive_show_asm / simple_dynamic, bpaf::derive::pure_optional) fail at baseline too and must be ignored; no other test may start failing.
   - the property above is violated for some input, and
   - the violation needs something specific to manifest: an unusual input, a particular combination of parser shape and argument order, a multi-step situation, or two cooperating sites that each look fine alone. Do NOT make a change that ordinary everyday use of the library would expose at once (those would also be caught by the existing tests).
   Prefer changes that look like plausible refactoring slips or "optimisations" (off-by-one in a scan, wrong operand, dropped condition, swapped branch, wrong variable restored, boundary case) in the parsing core: src/args.rs, src/arg.rs, src/structs.rs, src/params.rs, src/info.rs, src/error.rs, src/lib.rs (the construct! macro), src/buffer/** as relevant to the property.
3. For each change write a demonstration: a Rust integration test file (using only bpaf's public API, features "autocomplete,docgen,batteries,derive" are available to tests) that FAILS with your change applied and PASSES on the unmodified tree. Verify both facts yourself by actually running it (e.g. place it temporarily as /tmp/wt/{PID}/tests/seeded_demo.rs and run `cargo test --offline --test seeded_demo`), then remove it from tests/ again.
4. Deliver, for each change i in {{m1, m2}}, a directory /tmp/wt/{PID}/_seeded/<i>/ containing:
   - patch.diff : output of `git -C /tmp/wt/{PID} diff -- src` with ONLY that change applied
   - demo.rs    : the demonstration test file
   - notes.md   : what was changed, which input exposes it, why ordinary use/tests do not, and the exact commands you ran with their outcome (baseline suite summary with the change applied; demo failing with / passing without the change)
   Leave the worktree's src/ unmodified at the end (git checkout -- src) so only _seeded/ remains as untracked output.

Constraints: no network; do not modify Cargo.toml or tests; keep each change to a handful of lines. Be efficient: full workspace test runs take a minute or two. Report back a short summary of the two changes (file, function, one-line description, exposing input).
