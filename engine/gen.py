"""Template expander: pastes real bpaf items (byte ranges of /repo/src/*.rs) into a Verus file.

Template language (lines starting with `//@@`):

  //@@ fn <file> | <sel> | <sel> ...        start a function unit (sel: `mod X`, `impl X`, `impl T for X`, `fn X`)
  //@@ type <file> | <sel> ...              paste a struct/enum declaration
  //@@ lemma <name>                         hand written ghost block (proof fn / spec fn), emitted verbatim
  //@@ unit <name> tags=C01,C05 [flags]     name + property tags of the unit (flags: inherent, nowrap, derive_clone, external_body)
  //@@ ret <ident>                          name the return value `-> (ident: T)`
  //@@ attr                                 payload: attributes emitted in front of the item
  //@@ members                              payload: ghost members emitted at the top of the wrapping impl body
  //@@ spec                                 payload: requires/ensures/decreases inserted between signature and body
  //@@ loop <n>                             payload: invariant/decreases inserted before the body `{` of the n-th loop (1-based)
  //@@ insert before|after <k> `<anchor>`   payload inserted before/after the k-th occurrence (1-based) of anchor text in the fn body
  //@@ open `<anchor>` <k> / close ...      sugar for insert
  //@@ drop fn <name>                       (trait impl wrap) states that a sibling fn of the impl is not extracted
  //@@ end

Only *insertions* of ghost text and the named rewrites T1..T8 of DESIGN.md are applied to real text.
"""
import os
import re
import sys
from dataclasses import dataclass, field
from typing import Dict, List, Optional, Tuple

sys.path.insert(0, os.path.dirname(os.path.abspath(__file__)))
from rustlex import (TRIVIA, AnchorError, Item, LexError, Tok, body_items, lex,
                     match_close, parse_items, sig)

KEEP_ATTR = re.compile(r"#\s*\[\s*(cfg\b|cfg_attr\b(?![^\]]*\bdoc\b))")


class ShapeError(Exception):
    """The real function no longer has the shape the unit annotates (loop/anchor count)."""


@dataclass
class Unit:
    name: str
    kind: str  # fn, type, lemma
    tags: List[str]
    flags: List[str]
    src_file: Optional[str] = None
    selector: Optional[str] = None
    src_line: Optional[int] = None  # line of the item in the real source
    src_end_line: Optional[int] = None
    gen_start: int = 0  # first line (1-based) in the generated file
    gen_end: int = 0
    labels: Dict[int, str] = field(default_factory=dict)  # gen line -> clause label
    has_requires: bool = False
    body_open_line: int = 0  # generated line holding the body's `{`
    insertions: List[str] = field(default_factory=list)
    tpl_line: int = 0
    fn_name: str = ""
    canary_ok: bool = True


class Source:
    cache: Dict[str, "Source"] = {}

    def __init__(self, root, rel):
        self.rel = rel
        self.path = os.path.join(root, rel)
        with open(self.path, encoding="utf-8") as f:
            self.text = f.read()
        self.toks = lex(self.text)
        self.items = parse_items(self.toks, 0, len(self.toks))

    @classmethod
    def get(cls, root, rel):
        key = os.path.join(root, rel)
        if key not in cls.cache:
            if not os.path.exists(key):
                raise AnchorError("source file %s not found" % rel)
            cls.cache[key] = Source(root, rel)
        return cls.cache[key]


def find_item(src: Source, selector: List[str]) -> Tuple[Item, List[Item]]:
    """Resolve `mod inner | impl State | fn remove`; returns (item, chain of parents)."""
    items = src.items
    parents: List[Item] = []
    for depth, part in enumerate(selector):
        words = part.split()
        last = depth == len(selector) - 1
        cands = []
        if words[0] == "impl":
            if "for" in words:
                tr, ty = words[1], words[3]
                cands = [i for i in items if i.kind == "impl" and i.trait_name == tr and i.self_name == ty]
            else:
                cands = [i for i in items if i.kind == "impl" and i.trait_name is None and i.self_name == words[1]]
        else:
            cands = [i for i in items if i.kind == words[0] and i.name == words[1]]
        if not cands:
            raise AnchorError("%s: `%s` not found" % (src.rel, " | ".join(selector[: depth + 1])))
        if last:
            if len(cands) > 1:
                # cfg-duplicated items: allow `#N` suffix
                m = [w for w in words if w.startswith("#")]
                if m:
                    return cands[int(m[0][1:]) - 1], parents
                raise AnchorError("%s: `%s` is ambiguous (%d candidates)" % (src.rel, part, len(cands)))
            return cands[0], parents
        # descend: for impls there may be several blocks; pick those containing the next part
        nxt = selector[depth + 1].split()
        found = None
        for c in cands:
            if c.open is None:
                continue
            inner = body_items(src.toks, c)
            if nxt[0] == "impl":
                ok = any(i.kind == "impl" for i in inner)
            else:
                ok = any(i.kind == nxt[0] and i.name == nxt[1] for i in inner)
            if ok:
                if found is not None:
                    raise AnchorError("%s: `%s` is ambiguous" % (src.rel, " | ".join(selector[: depth + 2])))
                found = (c, inner)
        if found is None:
            raise AnchorError("%s: `%s` not found" % (src.rel, " | ".join(selector[: depth + 2])))
        parents.append(found[0])
        items = found[1]
    raise AssertionError


def text_of(src: Source, a: int, b: int) -> str:
    """text of tokens [a,b)"""
    if a >= b:
        return ""
    return src.text[src.toks[a].start : src.toks[b - 1].end]


def kept_attrs(src: Source, it: Item) -> str:
    out = []
    for a, b in it.attrs:
        t = text_of(src, a, b)
        if KEEP_ATTR.match(t):
            out.append(t + "\n")
    return "".join(out)


def strip_inner_attrs(src: Source, lo: int, hi: int) -> List[Tuple[int, int]]:
    """token ranges of non-cfg attributes inside [lo,hi) (to be dropped, T2)"""
    drops = []
    toks = src.toks
    k = lo
    while k < hi:
        if toks[k].kind == "punct" and toks[k].text == "#":
            j = k + 1
            while toks[j].kind in TRIVIA:
                j += 1
            if toks[j].text == "[":
                e = match_close(toks, j)
                t = text_of(src, k, e + 1)
                if not KEEP_ATTR.match(t):
                    drops.append((k, e + 1))
                k = e + 1
                continue
        k += 1
    return drops


CFG_FEATURE = re.compile(r'#\s*\[\s*cfg\s*\(\s*(not\s*\(\s*)?feature\s*=\s*"([^"]+)"\s*\)?\s*\)\s*\]$')


def cfg_in_parens_edits(src: "Source", lo: int, hi: int, features, opener="(", fields_only=False) -> List[Tuple[int, int, str]]:
    """T10: `#[cfg(feature = "..")]` on a fn parameter or call argument is evaluated here (the verus! macro cannot
    carry attributes on parameters): active -> attribute removed; inactive -> attribute and element removed."""
    toks = src.toks
    edits = []
    stack = []
    k = lo
    while k < hi:
        t = toks[k]
        if t.kind == "punct" and t.text in "([{":
            stack.append(t.text)
        elif t.kind == "punct" and t.text in ")]}":
            if stack:
                stack.pop()
        elif t.kind == "punct" and t.text == "#" and stack and stack[-1] == opener:
            j = k + 1
            while toks[j].kind in TRIVIA:
                j += 1
            if toks[j].text == "[":
                e = match_close(toks, j)
                m = CFG_FEATURE.match(" ".join(text_of(src, k, e + 1).split()))
                if m and fields_only:
                    # inside a block `{}` only struct-literal / struct-pattern fields are handled (`name,` / `name: expr,`);
                    # cfg-gated statements (ending in `;` or starting with a keyword) are left to the compiler
                    q = e + 1
                    while toks[q].kind in TRIVIA:
                        q += 1
                    stmt = toks[q].kind != "ident" or toks[q].text in ("let", "if", "match", "return", "for", "while", "loop", "fn", "use", "unsafe")
                    if not stmt:
                        d0 = q + 1
                        while toks[d0].kind in TRIVIA:
                            d0 += 1
                        if toks[d0].text not in (",", ":", "}"):
                            stmt = True
                        else:
                            # a statement would reach `;` before `,` / `}` at depth 0
                            z = q
                            while z < hi:
                                tz = toks[z]
                                if tz.kind == "punct":
                                    if tz.text in "([{":
                                        z = match_close(toks, z)
                                    elif tz.text == ";":
                                        stmt = True
                                        break
                                    elif tz.text in ",}":
                                        break
                                z += 1
                    if stmt:
                        k = e + 1
                        continue
                if m:
                    active = (m.group(2) in features) != bool(m.group(1))
                    if active:
                        edits.append((k, e + 1, ""))
                    else:
                        # element: up to the next `,` at depth 0 (inclusive) or the closing paren (exclusive)
                        d = 0
                        q = e + 1
                        while q < hi:
                            tx = toks[q]
                            if tx.kind == "punct":
                                if tx.text in "([{":
                                    q = match_close(toks, q)
                                elif tx.text == "," :
                                    q += 1
                                    break
                                elif tx.text in ")}":
                                    break
                            q += 1
                        edits.append((k, q, ""))
                    k = e + 1
                    continue
        k += 1
    return edits


class Writer:
    def __init__(self):
        self.parts: List[str] = []
        self.line = 1
        self.linemap: List[Tuple[int, str, int]] = []  # (gen_line, src_rel, src_line) anchors

    def emit(self, text: str, src: Optional[Source] = None, src_line: Optional[int] = None):
        if src is not None:
            self.linemap.append((self.line, src.rel, src_line))
        self.parts.append(text)
        self.line += text.count("\n")

    def text(self):
        return "".join(self.parts)


def parse_tags(words):
    tags, flags = [], []
    for w in words:
        if w.startswith("tags="):
            tags = [x for x in w[5:].split(",") if x]
        else:
            flags.append(w)
    return tags, flags


LABEL_RE = re.compile(r"//\s*#([A-Za-z0-9_.\-]+)")


class Generator:
    def __init__(self, repo_root: str, canary: bool = False, features=()):
        self.root = repo_root
        self.canary = canary
        self.features = set(features)
        self.units: List[Unit] = []
        self.w = Writer()
        self.dropped: List[str] = []

    # ---------------------------------------------------------------- template
    def expand(self, tpl_path: str) -> str:
        with open(tpl_path, encoding="utf-8") as f:
            lines = f.read().split("\n")
        i = 0
        while i < len(lines):
            ln = lines[i]
            st = ln.strip()
            if st.startswith("//@@ include "):
                inc = os.path.join(os.path.dirname(tpl_path), st.split(None, 2)[2].strip())
                self.expand(inc)
                i += 1
                continue
            if st.startswith("//@@ fn ") or st.startswith("//@@ type ") or st.startswith("//@@ lemma") or st.startswith("//@@ macro "):
                j = i + 1
                while j < len(lines) and lines[j].strip() != "//@@ end":
                    if re.match(r"\s*//@@ (fn|type|lemma|macro)\b", lines[j]):
                        raise ValueError("%s:%d: nested directive (missing //@@ end?)" % (tpl_path, j + 1))
                    j += 1
                if j >= len(lines):
                    raise ValueError("%s:%d: directive without //@@ end" % (tpl_path, i + 1))
                self.block(tpl_path, i + 1, lines[i:j])
                i = j + 1
                continue
            if st.startswith("//@@"):
                raise ValueError("%s:%d: stray directive %s" % (tpl_path, i + 1, st))
            self.w.emit(ln + "\n")
            i += 1
        return self.w.text()

    def block(self, tpl_path, tpl_line, lines):
        head = lines[0].strip()[4:].strip()
        kind, _, rest = head.partition(" ")
        sections: List[Tuple[str, List[str]]] = []
        for ln in lines[1:]:
            st = ln.strip()
            if st.startswith("//@@"):
                sections.append((st[4:].strip(), []))
            else:
                if not sections:
                    if st:
                        raise ValueError("%s:%d: payload before a section" % (tpl_path, tpl_line))
                    continue
                sections[-1][1].append(ln)
        unit = None

        def fresh():
            return {"ret": None, "spec": [], "loops": {}, "inserts": [], "attr": [], "members": [], "drops": [], "body": None,
                    "closures": [], "flags": [], "preloops": {}, "postloops": {}, "loopbodies": {}, "substs": [], "atend": []}

        opts = fresh()
        main_opts = opts
        also: List[Tuple[str, dict]] = []
        for h, payload in sections:
            words = h.split()
            if words[0] == "also":
                # sibling fn of the same impl, emitted inside the same impl block: `//@@ also fn meta [external_body]`
                opts = fresh()
                opts["flags"] = words[3:]
                also.append((words[2], opts))
                continue
            if words[0] == "unit":
                tags, flags = parse_tags(words[2:])
                unit = Unit(words[1], kind, tags, flags, tpl_line=tpl_line)
            elif words[0] == "ret":
                opts["ret"] = words[1]
            elif words[0] == "spec":
                opts["spec"] = payload
            elif words[0] == "attr":
                opts["attr"] = payload
            elif words[0] == "members":
                opts["members"] = payload
            elif words[0] == "loop":
                opts["loops"][int(words[1])] = payload
            elif words[0] == "preloop":
                opts["preloops"][int(words[1])] = payload
            elif words[0] == "postloop":
                opts["postloops"][int(words[1])] = payload
            elif words[0] == "loopbody":
                opts["loopbodies"][int(words[1])] = payload
            elif words[0] == "atend":
                # ghost text placed in front of the closing brace of the fn body (only sound for bodies whose value is `()`)
                opts["atend"] = payload
            elif words[0] == "insert":
                m = re.match(r"insert\s+(before|after_stmt|after)\s+(\d+)\s+`(.*)`\s*$", h)
                if not m:
                    raise ValueError("%s:%d: bad insert directive: %s" % (tpl_path, tpl_line, h))
                opts["inserts"].append((m.group(1), int(m.group(2)), m.group(3), payload))
            elif words[0] == "closure":
                # T3b: `|PAT| body` -> `|p: T| <ghost> { let PAT = p; body` (closing brace by a separate insert)
                m = re.match(r"closure\s+(\d+)\s+`\|(.*)\|`\s+as\s+(\w+)\s*:\s*(.*)$", h)
                if not m:
                    raise ValueError("%s:%d: bad closure directive: %s" % (tpl_path, tpl_line, h))
                opts["closures"].append((int(m.group(1)), m.group(2), m.group(3), m.group(4).strip(), payload))
            elif words[0] == "subst":
                # T8b: a field type outside Verus' subset is replaced by an opaque stand-in type (types only, never code)
                m = re.match(r"subst\s+`(.*)`\s*=>\s*`(.*)`\s*$", h)
                if not m:
                    raise ValueError("%s:%d: bad subst directive: %s" % (tpl_path, tpl_line, h))
                opts["substs"].append((m.group(1), m.group(2)))
            elif words[0] == "drop":
                opts["drops"].append(words[2])
            elif words[0] == "body":
                opts["body"] = payload
            else:
                raise ValueError("%s:%d: unknown section %s" % (tpl_path, tpl_line, h))
        if unit is None:
            raise ValueError("%s:%d: block without //@@ unit" % (tpl_path, tpl_line))
        if kind == "lemma":
            unit.gen_start = self.w.line
            body = lines[1:]
            # payload of the lemma = everything that is not a directive line
            txt = [l for l in body if not l.strip().startswith("//@@")]
            self.emit_lemma(unit, txt)
            unit.gen_end = self.w.line - 1
            self.units.append(unit)
            return
        if kind == "macro":
            # T9: rustc's own expansion of construct! for a small arity
            import expand
            which = rest.split()[1]
            work = os.environ.get("VERIF_EXPAND_DIR") or os.path.join(os.path.dirname(os.path.dirname(os.path.abspath(__file__))), "out", "expand")
            head, body = expand.expand_construct(self.root, work)[which]
            unit.kind = "fn"
            unit.src_file = "src/lib.rs"
            unit.selector = "macro_rules! construct (@fin arm), rustc -Zunpretty=expanded, client fn %s" % which
            msrc = Source.get(self.root, "src/lib.rs")
            mi = [i for i in msrc.items if i.kind == "macro_rules!" and i.name == "construct"]
            if not mi:
                raise AnchorError("src/lib.rs: macro_rules! construct not found")
            unit.src_line = msrc.toks[mi[0].kw].line
            unit.src_end_line = msrc.toks[mi[0].close].line
            unit.gen_start = self.w.line
            self.w.emit(head + "\n")
            base = self.w.line
            for off, l in enumerate(main_opts["spec"]):
                m = LABEL_RE.search(l)
                if m:
                    unit.labels[base + off] = m.group(1)
            self.w.emit("\n".join(main_opts["spec"]) + "\n")
            unit.has_requires = True
            unit.insertions.append("closure contract spliced on the closure header")
            if self.canary:
                body = "{ proof { assert(false); } " + body[1:]
            self.w.emit(body + "\n")
            unit.gen_end = self.w.line - 1
            self.units.append(unit)
            return
        file_, *sel = [p.strip() for p in rest.split("|")]
        unit.src_file = file_
        unit.selector = " | ".join(sel)
        src = Source.get(self.root, file_)
        item, parents = find_item(src, sel)
        unit.src_line = src.toks[item.kw].line
        unit.src_end_line = src.toks[item.close].line
        unit.gen_start = self.w.line
        if kind == "type":
            self.emit_type(unit, src, item, main_opts)
        else:
            main_opts["also"] = also
            self.emit_fn(unit, src, item, parents, main_opts)
        unit.gen_end = self.w.line - 1
        self.units.append(unit)

    # ---------------------------------------------------------------- lemma
    def emit_lemma(self, unit: Unit, txt: List[str]):
        joined = "\n".join(txt) + "\n"
        for f in unit.flags:
            # `cfg=<feature>`: the lemma exists only in that configuration (its fns carry #[cfg(feature = ..)] in the template)
            if f.startswith("cfg=") and f[4:] not in self.features and "absent_in_this_config" not in unit.flags:
                unit.flags.append("absent_in_this_config")
        if re.search(r"\brequires\b", joined):
            unit.has_requires = True
        if self.canary:
            # insert assert(false) at the start of the first fn body
            m = re.search(r"\bproof\s+fn\b", joined)
            if m:
                k = self._fn_body_open_in_text(joined, m.end())
                if k is not None:
                    joined = joined[: k + 1] + " assert(false); " + joined[k + 1 :]
        base = self.w.line
        for off, l in enumerate(joined.split("\n")):
            m = LABEL_RE.search(l)
            if m:
                unit.labels[base + off] = m.group(1)
        self.w.emit(joined)

    @staticmethod
    def _fn_body_open_in_text(text: str, pos: int) -> Optional[int]:
        toks = lex(text[pos:])
        depth = 0
        for t in toks:
            if t.kind != "punct":
                continue
            if t.text in "([":
                depth += 1
            elif t.text in ")]":
                depth -= 1
            elif t.text == "{" and depth == 0:
                return pos + t.start
        return None

    # ---------------------------------------------------------------- types
    def emit_type(self, unit: Unit, src: Source, item: Item, opts):
        toks = src.toks
        w = self.w
        for l in opts["attr"]:
            w.emit(l + "\n")
        w.emit(kept_attrs(src, item))
        if "derive_copy" in unit.flags:
            derives = " ".join(text_of(src, a, b) for a, b in item.attrs)
            if not re.search(r"derive\s*\([^)]*\bCopy\b", derives):
                raise ShapeError("%s: unit keeps #[derive(Clone, Copy)] but the type no longer derives Copy" % unit.name)
            w.emit("#[derive(Clone, Copy)]\n")
        if "derive_eq" in unit.flags:
            derives = " ".join(text_of(src, a, b) for a, b in item.attrs)
            if not re.search(r"derive\s*\([^)]*\bPartialEq\b", derives):
                raise ShapeError("%s: unit keeps #[derive(PartialEq, Eq)] but the type no longer derives PartialEq" % unit.name)
            w.emit("#[derive(PartialEq, Eq)]\n")
        # T1: visibility -> pub
        w.emit("pub ")
        end = item.close + 1
        drops = strip_inner_attrs(src, item.kw, end)
        # field visibility: make every field pub
        edits: List[Tuple[int, int, str]] = [(a, b, "") for a, b in drops]  # token ranges replaced by text
        # T10: cfg on struct / enum-variant fields is evaluated by the extractor (Verus generates accessors for every field)
        cfg_edits = cfg_in_parens_edits(src, item.kw, end, self.features, opener="{")
        removed = [(a, b) for a, b, _ in cfg_edits]
        edits += cfg_edits
        edits += [e for e in self._field_vis_edits(src, item) if not any(a <= e[0] < b for a, b in removed)]
        for old, new in opts.get("substs", []):
            text = src.text[toks[item.kw].start:toks[end - 1].end]
            pos = text.find(old)
            if pos < 0 or text.find(old, pos + 1) >= 0:
                raise ShapeError("%s: type text `%s` does not occur exactly once" % (unit.name, old))
            a0 = toks[item.kw].start + pos
            ta = [k for k in range(item.kw, end) if toks[k].start == a0]
            tb = [k for k in range(item.kw, end) if toks[k].end == a0 + len(old)]
            if not ta or not tb:
                raise ShapeError("%s: type text `%s` is not on token boundaries" % (unit.name, old))
            edits.append((ta[0], tb[0] + 1, new))
            self.dropped.append("%s: field type `%s` of %s replaced by the opaque stand-in `%s` (T8b)" % (src.rel, old, unit.name, new))
        self._emit_with_edits(src, item.kw, end, edits)
        w.emit("\n")
        if "derive_clone" in unit.flags:
            derives = " ".join(text_of(src, a, b) for a, b in item.attrs)
            if not re.search(r"derive\s*\([^)]*\bClone\b", derives):
                raise ShapeError("%s: unit assumes #[derive(Clone)] (T6) but the type no longer derives Clone" % unit.name)
            generics, params = self._generics_of(src, item)
            w.emit(
                "impl%s Clone for %s%s {\n    #[verifier::external_body]\n    fn clone(&self) -> (r: Self)\n        ensures r == *self\n    { unimplemented!() }\n}\n"
                % (generics, item.name, params)
            )

    def _generics_of(self, src: Source, item: Item):
        s = sig(src.toks, item.kw + 1, item.open if item.open is not None else item.close)
        toks = src.toks
        if len(s) > 1 and toks[s[1]].text == "<":
            depth = 0
            for n, k in enumerate(s[1:], 1):
                if toks[k].text == "<":
                    depth += 1
                elif toks[k].text == ">":
                    depth -= 1
                    if depth == 0:
                        g = text_of(src, s[1], k + 1)
                        names = re.findall(r"(?:^<|,)\s*(?:const\s+)?('?\w+)", g)
                        return g, "<" + ", ".join(names) + ">"
        return "", ""

    def _field_vis_edits(self, src: Source, item: Item):
        """T1: make fields of a struct public (enum variants carry no visibility)."""
        toks = src.toks
        edits = []
        if item.kind != "struct":
            return edits
        # locate field list: `{..}` body or `(..)` tuple
        if item.open is not None:
            lo, hi = item.open, item.close
        else:
            s = sig(toks, item.kw + 1, item.close)
            par = [k for k in s if toks[k].text == "("]
            if not par:
                return edits
            lo = par[0]
            hi = match_close(toks, lo)
        k = lo + 1
        start_of_field = True
        while k < hi:
            t = toks[k]
            if t.kind in TRIVIA:
                k += 1
                continue
            if start_of_field:
                # skip attributes
                while toks[k].text == "#":
                    j = k + 1
                    while toks[j].kind in TRIVIA:
                        j += 1
                    e = match_close(toks, j)
                    k = e + 1
                    while toks[k].kind in TRIVIA:
                        k += 1
                if k >= hi:
                    break
                if toks[k].text == "pub":
                    j = k + 1
                    jj = j
                    while toks[jj].kind in TRIVIA:
                        jj += 1
                    if toks[jj].text == "(":
                        e = match_close(toks, jj)
                        edits.append((k, e + 1, "pub"))
                        k = e + 1
                    else:
                        k = j
                else:
                    edits.append((k, k, "pub "))
                start_of_field = False
                continue
            if t.kind == "punct" and t.text in "([{<":
                if t.text == "<":
                    # generic args: skip to matching '>' by counting
                    depth = 0
                    while k < hi:
                        if toks[k].text == "<":
                            depth += 1
                        elif toks[k].text == ">":
                            depth -= 1
                            if depth == 0:
                                break
                        elif toks[k].text in "([{":
                            k = match_close(toks, k)
                        k += 1
                    k += 1
                    continue
                k = match_close(toks, k) + 1
                continue
            if t.kind == "punct" and t.text == ",":
                start_of_field = True
            k += 1
        return edits

    def _emit_with_edits(self, src: Source, a: int, b: int, edits: List[Tuple[int, int, str]]):
        """emit tokens [a,b) of src applying token-range replacements; keeps the line map."""
        toks = src.toks
        edits = sorted(edits, key=lambda e: (e[0], e[1]))
        pos = a
        for ea, eb, txt in edits:
            if ea < pos or eb > b:
                if ea < a or eb > b:
                    continue
                raise ShapeError("overlapping edits")
            if pos < ea:
                self.w.emit(text_of(src, pos, ea), src, toks[pos].line)
            if txt:
                self.w.emit(txt)
            pos = eb
        if pos < b:
            self.w.emit(text_of(src, pos, b), src, toks[pos].line)

    # ---------------------------------------------------------------- functions
    def emit_fn(self, unit: Unit, src: Source, item: Item, parents: List[Item], opts):
        toks = src.toks
        w = self.w
        if item.kind != "fn":
            raise AnchorError("%s: selector does not name a fn" % unit.name)
        unit.fn_name = item.name
        impl = parents[-1] if parents and parents[-1].kind == "impl" else None
        trait_impl = impl is not None and impl.trait_name is not None and "inherent" not in unit.flags
        wrap = impl is not None and "nowrap" not in unit.flags
        assoc_types: Dict[str, str] = {}
        if wrap:
            # impl header, verbatim (T4: `Trait for` removed when `inherent`)
            w.emit(kept_attrs(src, impl))
            hdr_a, hdr_b = impl.kw, impl.open
            if impl.trait_name is not None and "inherent" in unit.flags:
                s = sig(toks, hdr_a, hdr_b)
                # remove tokens from the trait path up to and including `for`
                depth = 0
                start = None
                for_k = None
                idx = 1
                if toks[s[1]].text == "<":
                    d = 0
                    for idx in range(1, len(s)):
                        if toks[s[idx]].text == "<":
                            d += 1
                        elif toks[s[idx]].text == ">":
                            d -= 1
                            if d == 0:
                                idx += 1
                                break
                start = s[idx]
                d = 0
                for n in range(idx, len(s)):
                    tx = toks[s[n]].text
                    if tx in "<(":
                        d += 1
                    elif tx in ">)":
                        d -= 1
                    elif tx == "for" and d == 0:
                        for_k = s[n]
                        break
                if for_k is None:
                    raise ShapeError("%s: impl header has no `for`" % unit.name)
                self._emit_with_edits(src, hdr_a, hdr_b, [(start, for_k + 1, "")])
                # associated types of the trait impl, substituted textually (T4)
                for sib in body_items(toks, impl):
                    if sib.kind == "type":
                        ss = sig(toks, sib.kw + 1, sib.close)
                        eq = [k for k in ss if toks[k].text == "="][0]
                        # strip comments inside the type text
                        ty = "".join(
                            toks[k].text if toks[k].kind not in ("lcomment", "bcomment", "doc") else " "
                            for k in range(eq + 1, sib.close)
                        )
                        assoc_types[sib.name] = " ".join(ty.split())
            else:
                w.emit(text_of(src, hdr_a, hdr_b), src, toks[hdr_a].line)
            w.emit("{\n")
            for l in opts["members"]:
                w.emit(l + "\n")
            # account for siblings
            also_names = [n for n, _ in opts.get("also", [])]
            sibs = [s_ for s_ in body_items(toks, impl) if s_.kind == "fn" and s_.name != item.name]
            if trait_impl:
                for s_ in sibs:
                    if s_.name in also_names:
                        continue
                    if s_.name not in opts["drops"]:
                        raise ShapeError(
                            "%s: trait impl has fn `%s` that the unit neither extracts nor drops" % (unit.name, s_.name)
                        )
                    self.dropped.append("%s: fn %s of `%s` not extracted" % (src.rel, s_.name, unit.selector))
        self._emit_one_fn(unit, src, item, opts, trait_impl, assoc_types, unit.flags)
        for n, o in opts.get("also", []):
            cands = [s_ for s_ in body_items(toks, impl) if s_.kind == "fn" and s_.name == n] if impl is not None else []
            if len(cands) != 1:
                raise AnchorError("%s: sibling fn `%s` not found in the impl" % (unit.name, n))
            self._emit_one_fn(unit, src, cands[0], o, trait_impl, assoc_types, o["flags"])
        if wrap:
            w.emit("}\n")

    def _emit_one_fn(self, unit: Unit, src: Source, item: Item, opts, trait_impl: bool, assoc_types, flags):
        toks = src.toks
        w = self.w
        # an item compiled out by its own #[cfg(feature = ..)] is absent from this configuration
        for a, b in item.attrs:
            m = CFG_FEATURE.match(" ".join(text_of(src, a, b).split()))
            if m and ((m.group(2) in self.features) == bool(m.group(1))):
                if "absent_in_this_config" not in unit.flags:
                    unit.flags.append("absent_in_this_config")
        for f in list(flags):
            # `cfg=<feature>`: the item's module is compiled only with that feature (cfg on the `mod` declaration)
            if f.startswith("cfg="):
                w.emit('#[cfg(feature = "%s")]\n' % f[4:])
                if f[4:] not in self.features and "absent_in_this_config" not in unit.flags:
                    unit.flags.append("absent_in_this_config")
        if "only=default" in flags and "autocomplete" in self.features:
            # the unit's text under this feature set is outside the verifier's reach: its contract is *assumed* here
            flags = list(flags) + ["external_body"]
            if "external_body" not in unit.flags:
                unit.flags.append("assumed_in_this_config")
        for l in opts["attr"]:
            w.emit(l + "\n")
        w.emit(kept_attrs(src, item))
        if "external_body" in flags:
            w.emit("#[verifier::external_body]\n")
        if not trait_impl:
            w.emit("pub ")
        # ---- signature
        body_open = item.open
        if body_open is None:
            raise AnchorError("%s: fn without body" % unit.name)
        s = sig(toks, item.kw, body_open)
        # param list: first `(` at angle depth 0
        depth = 0
        par = None
        for k in s:
            tx = toks[k].text
            if tx == "<":
                depth += 1
            elif tx == ">":
                depth -= 1
            elif tx == "(" and depth == 0:
                par = k
                break
        if par is None:
            raise ShapeError("%s: no parameter list" % unit.name)
        par_close = match_close(toks, par)
        after = [k for k in s if k > par_close]
        edits: List[Tuple[int, int, str]] = []
        # T2: drop non-cfg attributes on parameters; T10: cfg on parameters / call arguments evaluated here
        edits += [(a, b, "") for a, b in strip_inner_attrs(src, par, par_close)]
        edits += cfg_in_parens_edits(src, item.kw, item.close, self.features)
        edits += cfg_in_parens_edits(src, body_open, item.close, self.features, opener="{", fields_only=True)
        where_k = None
        d = 0
        for k in after:
            tx = toks[k].text
            if tx in "<(":
                d += 1
            elif tx in ">)":
                d -= 1
            elif tx == "where" and d == 0:
                where_k = k
                break
        sig_end = body_open  # exclusive
        if after and toks[after[0]].text == "->":
            rt_a = after[1]
            rt_b = where_k if where_k is not None else body_open
            # trim trailing trivia of return type
            rb = rt_b
            while toks[rb - 1].kind in TRIVIA:
                rb -= 1
            if opts["ret"]:
                edits.append((rt_a, rt_a, "(%s: " % opts["ret"]))
                edits.append((rb, rb, ")"))
        elif opts["ret"]:
            raise ShapeError("%s: `ret` given but fn has no return type" % unit.name)
        # assoc type substitution (T4) inside signature and body
        if assoc_types:
            for k in sig(toks, item.kw, item.close):
                if toks[k].text == "Self" :
                    nx = [j for j in sig(toks, k + 1, min(k + 6, item.close))]
                    if len(nx) >= 2 and toks[nx[0]].text == "::" and toks[nx[1]].text in assoc_types:
                        edits.append((k, nx[1] + 1, assoc_types[toks[nx[1]].text]))
        sig_edits = [e for e in edits if e[1] <= sig_end]
        body_edits = [e for e in edits if e[0] >= sig_end]
        self._emit_with_edits(src, item.kw, sig_end, sig_edits)
        # ---- spec
        spec = opts["spec"]
        if spec:
            w.emit("\n")
            base = w.line
            for off, l in enumerate(spec):
                m = LABEL_RE.search(l)
                if m:
                    unit.labels[base + off] = m.group(1)
                if re.search(r"\brequires\b", l):
                    unit.has_requires = True
            w.emit("\n".join(spec) + "\n")
        # ---- body with insertions
        if "external_body" in flags and "keep_body" not in flags:
            w.emit("{ unimplemented!() }\n")
            self.dropped.append("%s: body of fn %s (%s) not extracted: assumed (external_body)" % (src.rel, item.name, unit.name))
        else:
            body_close = item.close
            ins = self._body_insertions(unit, src, body_open, body_close, opts, flags)
            ins += body_edits
            ins += [(a, b, "") for a, b in strip_inner_attrs(src, body_open, body_close) ]
            if "hoist_nested" in flags:
                # T7: nested fn items are extracted as units of their own; here they are removed from the body
                for nested in parse_items(toks, body_open + 1, body_close):
                    if nested.kind == "fn":
                        ins = [e for e in ins if not (nested.first <= e[0] <= nested.close)]
                        ins.append((nested.first, nested.close + 1, ""))
                        self.dropped.append("%s: nested fn %s of %s hoisted (extracted as its own unit)" % (src.rel, nested.name, unit.name))
            unit.body_open_line = w.line
            if self.canary:
                ins.append((body_open + 1, body_open + 1, " proof { assert(false); } "))
            self._emit_with_edits(src, body_open, body_close + 1, ins)
            w.emit("\n")

    def _body_insertions(self, unit: Unit, src: Source, bo: int, bc: int, opts, flags=()):
        toks = src.toks
        edits: List[Tuple[int, int, str]] = []
        # loops
        loops = []
        k = bo + 1
        while k < bc:
            t = toks[k]
            if t.kind == "ident" and t.text in ("loop", "while", "for"):
                # `for` inside `impl .. for` / HRTB cannot occur in bodies we extract
                j = k + 1
                depth = 0
                opn = None
                while j < bc:
                    tt = toks[j]
                    if tt.kind == "punct":
                        if tt.text in "([":
                            j = match_close(toks, j)
                        elif tt.text == "{":
                            opn = j
                            break
                    j += 1
                if opn is None:
                    raise ShapeError("%s: loop without body" % unit.name)
                loops.append((k, opn))
            k += 1
        # T12: byte-string literals written as array literals of their bytes (`b"\\ "` -> `&[92u8, 32u8]`): Verus models the
        # length of a byte-string literal but not its contents; the value and the type `&[u8; N]` are unchanged
        if "byte_lits" in flags:
            import ast
            nlit = 0
            for k in range(bo + 1, bc):
                t = toks[k]
                if t.kind == "str" and t.text.startswith('b"'):
                    if "\\\n" in t.text:
                        raise ShapeError("%s: byte-string literal with a line continuation is not supported" % unit.name)
                    try:
                        val = ast.literal_eval(t.text)
                    except Exception:
                        raise ShapeError("%s: cannot evaluate byte-string literal %s" % (unit.name, t.text))
                    edits.append((k, k + 1, "&[" + ", ".join("%du8" % b for b in val) + "]"))
                    nlit += 1
            if nlit:
                unit.insertions.append("T12: %d byte-string literal(s) written as array literals of the same bytes" % nlit)
        want = opts["loops"]
        if want:
            if max(want) > len(loops):
                raise ShapeError("%s: unit annotates loop %d but the body has %d loops" % (unit.name, max(want), len(loops)))
            if "loops=%d" % len(loops) not in flags and any(f.startswith("loops=") for f in flags):
                raise ShapeError("%s: number of loops changed (now %d)" % (unit.name, len(loops)))
        elif any(f.startswith("loops=") for f in flags) and "loops=%d" % len(loops) not in flags:
            raise ShapeError("%s: number of loops changed (now %d)" % (unit.name, len(loops)))
        for n, payload in opts.get("preloops", {}).items():
            if n > len(loops):
                raise ShapeError("%s: unit annotates loop %d but the body has %d loops" % (unit.name, n, len(loops)))
            kw, opn = loops[n - 1]
            edits.append((kw, kw, " " + "\n".join(payload).strip("\n") + "\n"))
            unit.insertions.append("before loop %d: ghost declarations" % n)
        for n, payload in opts.get("loopbodies", {}).items():
            if n > len(loops):
                raise ShapeError("%s: unit annotates loop %d but the body has %d loops" % (unit.name, n, len(loops)))
            kw, opn = loops[n - 1]
            edits.append((opn + 1, opn + 1, " " + "\n".join(payload).strip("\n") + "\n"))
            unit.insertions.append("start of loop %d body: ghost proof block" % n)
        for n, payload in opts.get("postloops", {}).items():
            if n > len(loops):
                raise ShapeError("%s: unit annotates loop %d but the body has %d loops" % (unit.name, n, len(loops)))
            kw, opn = loops[n - 1]
            cls = match_close(toks, opn)
            edits.append((cls + 1, cls + 1, " " + "\n".join(payload).strip("\n") + "\n"))
            unit.insertions.append("after loop %d: ghost proof block" % n)
        desugar_into = [int(f.split("=")[1]) for f in flags if f.startswith("desugar_for_into=")]
        desugar = [int(f.split("=")[1]) for f in flags if f.startswith("desugar_for=")] + desugar_into
        ref_binder = [int(f.split("=")[1]) for f in flags if f.startswith("ref_binder=")]
        for n, payload in want.items():
            kw, opn = loops[n - 1]
            txt = "\n" + "\n".join(payload) + "\n"
            if n in desugar:
                continue
            edits.append((opn, opn, txt))
            unit.insertions.append("loop %d: invariant/decreases" % n)
        # T11: `for PAT in EXPR { BODY }` over one of bpaf's own iterators, desugared as the Rust reference defines it:
        # `{ let mut it = EXPR; loop { let PAT = match it.next() { Some(x) => x, None => break }; BODY } }`
        for n in desugar:
            if n > len(loops):
                raise ShapeError("%s: unit desugars loop %d but the body has %d loops" % (unit.name, n, len(loops)))
            kw, opn = loops[n - 1]
            if toks[kw].text != "for":
                raise ShapeError("%s: loop %d is no longer a `for` loop" % (unit.name, n))
            inn = None
            depth = 0
            for k in range(kw + 1, opn):
                tx = toks[k]
                if tx.kind == "punct" and tx.text in "([{":
                    depth += 1
                elif tx.kind == "punct" and tx.text in ")]}":
                    depth -= 1
                elif tx.kind == "ident" and tx.text == "in" and depth == 0:
                    inn = k
                    break
            if inn is None:
                raise ShapeError("%s: loop %d: `in` not found" % (unit.name, n))
            pat = text_of(src, kw + 1, inn).strip()
            expr = text_of(src, inn + 1, opn).strip()
            inv = "\n" + "\n".join(want.get(n, [])) + "\n"
            # T11b: `&x` reference patterns in the binder (Verus has no ref patterns): bind the reference, dereference in a `let`
            derefs = ""
            for m in re.finditer(r"&\s*([A-Za-z_][A-Za-z0-9_]*)\b", pat):
                if m.group(1) == "mut":
                    raise ShapeError("%s: loop %d: `&mut` pattern in a for binder is not supported" % (unit.name, n))
                derefs += " let %s = *verif_r_%s;" % (m.group(1), m.group(1))
            if derefs:
                pat = re.sub(r"&\s*([A-Za-z_][A-Za-z0-9_]*)\b", lambda m: "verif_r_" + m.group(1), pat)
                unit.insertions.append("T11b loop %d: reference pattern in the binder replaced by a binding + `let x = *r;`" % n)
            if n in desugar_into:
                # the general form of the reference's desugaring: the iterator is `IntoIterator::into_iter(EXPR)`
                expr = "IntoIterator::into_iter(%s)" % expr
            ghost_all = ""
            if n in desugar_into:
                # ghost only: the sequence of items the iterator will yield (vstd's prophetic iterator model)
                ghost_all = " let ghost verif_all_%d = verif_it_%d.remaining();" % (n, n)
            head = "{ let mut verif_it_%d = %s;%s loop %s { let %s = match verif_it_%d.next() { Some(verif_x) => verif_x, None => break, };%s " % (n, expr, ghost_all, inv, pat, n, derefs)
            edits.append((kw, opn + 1, head))
            cls = match_close(toks, opn)
            edits.append((cls + 1, cls + 1, " }"))
            unit.insertions.append("T11 loop %d: `for %s in %s` desugared to `loop { match it.next() .. }`" % (n, pat, expr))
        # T11b on a native `for`: `for &c in EXPR { B }` -> `for verif_r_c in verif_it_N: EXPR { let c = *verif_r_c; B }`
        # (Verus has no reference patterns; `verif_it_N:` is Verus' ghost binder for the loop's iterator)
        for n in ref_binder:
            if n > len(loops):
                raise ShapeError("%s: unit rewrites the binder of loop %d but the body has %d loops" % (unit.name, n, len(loops)))
            kw, opn = loops[n - 1]
            if toks[kw].text != "for":
                raise ShapeError("%s: loop %d is no longer a `for` loop" % (unit.name, n))
            inn = None
            depth = 0
            for k in range(kw + 1, opn):
                tx = toks[k]
                if tx.kind == "punct" and tx.text in "([{":
                    depth += 1
                elif tx.kind == "punct" and tx.text in ")]}":
                    depth -= 1
                elif tx.kind == "ident" and tx.text == "in" and depth == 0:
                    inn = k
                    break
            if inn is None:
                raise ShapeError("%s: loop %d: `in` not found" % (unit.name, n))
            pat = text_of(src, kw + 1, inn).strip()
            derefs = ""
            for m in re.finditer(r"&\s*([A-Za-z_][A-Za-z0-9_]*)\b", pat):
                if m.group(1) == "mut":
                    raise ShapeError("%s: loop %d: `&mut` pattern in a for binder is not supported" % (unit.name, n))
                derefs += " let %s = *verif_r_%s;" % (m.group(1), m.group(1))
            if not derefs:
                raise ShapeError("%s: loop %d: binder has no reference pattern any more" % (unit.name, n))
            pat = re.sub(r"&\s*([A-Za-z_][A-Za-z0-9_]*)\b", lambda m: "verif_r_" + m.group(1), pat)
            edits.append((kw + 1, inn + 1, " %s in verif_it_%d: " % (pat, n)))
            edits.insert(0, (opn + 1, opn + 1, derefs + " "))  # before any ghost text placed at the start of the body
            unit.insertions.append("T11b loop %d: reference pattern in the binder replaced by a binding + `let x = *r;`; ghost iterator binder verif_it_%d" % (n, n))
        if opts.get("atend"):
            edits.append((bc, bc, " " + "\n".join(opts["atend"]).strip("\n") + "\n"))
            unit.insertions.append("end of body: ghost proof block")
        # anchored insertions
        body_text_start = toks[bo].start
        body_text = src.text[body_text_start : toks[bc].end]
        for where, occ, anchor, payload in opts["inserts"]:
            pos = -1
            for _ in range(occ):
                pos = body_text.find(anchor, pos + 1)
                if pos < 0:
                    raise ShapeError("%s: anchor `%s` (#%d) not found in fn body" % (unit.name, anchor, occ))
            a_start = body_text_start + pos
            a_end = a_start + len(anchor)
            # token boundary
            if where == "before":
                tk = [k for k in range(bo, bc + 1) if toks[k].start == a_start]
                if not tk:
                    raise ShapeError("%s: anchor `%s` does not start at a token boundary" % (unit.name, anchor))
                at = tk[0]
            elif where == "after_stmt":
                # after the statement the anchor starts: behind the first `;` at the anchor's own nesting level
                tk = [k for k in range(bo, bc + 1) if toks[k].start == a_start]
                if not tk:
                    raise ShapeError("%s: anchor `%s` does not start at a token boundary" % (unit.name, anchor))
                k, depth, at = tk[0], 0, None
                while k < bc:
                    tx = toks[k]
                    if tx.kind == "punct" and tx.text in "([{":
                        depth += 1
                    elif tx.kind == "punct" and tx.text in ")]}":
                        depth -= 1
                        if depth < 0:
                            break
                    elif tx.kind == "punct" and tx.text == ";" and depth == 0:
                        at = k + 1
                        break
                    k += 1
                if at is None:
                    raise ShapeError("%s: no statement end after anchor `%s`" % (unit.name, anchor))
            else:
                tk = [k for k in range(bo, bc + 1) if toks[k].end == a_end]
                if not tk:
                    raise ShapeError("%s: anchor `%s` does not end at a token boundary" % (unit.name, anchor))
                at = tk[0] + 1
            txt = " " + "\n".join(payload).strip("\n") + "\n"
            edits.append((at, at, txt))
            unit.insertions.append("%s `%s`: %s" % (where, anchor, " ".join(txt.split())[:120]))
        # T3b closure pattern parameter desugaring
        for occ, pat, var, ty, payload in opts["closures"]:
            anchor = "|%s|" % pat
            pos = -1
            for _ in range(occ):
                pos = body_text.find(anchor, pos + 1)
                if pos < 0:
                    raise ShapeError("%s: closure `%s` (#%d) not found in fn body" % (unit.name, anchor, occ))
            a_start = body_text_start + pos
            a_end = a_start + len(anchor)
            ta = [k for k in range(bo, bc + 1) if toks[k].start == a_start]
            tb = [k for k in range(bo, bc + 1) if toks[k].end == a_end]
            if not ta or not tb:
                raise ShapeError("%s: closure `%s` not on token boundaries" % (unit.name, anchor))
            ghost = " ".join("\n".join(payload).split())
            txt = "|%s: %s| %s { let %s = %s; " % (var, ty, ghost, pat, var)
            edits.append((ta[0], tb[0] + 1, txt))
            # the closure is the last argument of a call: its body ends at the `)` closing that call
            depth = 0
            opn = None
            for k in range(ta[0] - 1, bo, -1):
                tx = toks[k]
                if tx.kind != "punct":
                    continue
                if tx.text in ")]}":
                    depth += 1
                elif tx.text in "([{":
                    if depth == 0:
                        opn = k
                        break
                    depth -= 1
            if opn is None or toks[opn].text != "(":
                raise ShapeError("%s: closure `%s` is not a call argument" % (unit.name, anchor))
            cls = match_close(toks, opn)
            edits.append((cls, cls, " } "))
            unit.insertions.append("T3b closure `%s` desugared to `|%s: %s| .. { let %s = %s; ..`, ghost: %s" % (anchor, var, ty, pat, var, ghost[:120]))
        return edits


def generate(repo_root: str, tpl: str, out_path: str, canary=False, features=()):
    g = Generator(repo_root, canary=canary, features=features)
    text = g.expand(tpl)
    with open(out_path, "w", encoding="utf-8") as f:
        f.write(text)
    return g


if __name__ == "__main__":
    import argparse

    ap = argparse.ArgumentParser()
    ap.add_argument("--repo", default="/repo")
    ap.add_argument("--tpl", required=True)
    ap.add_argument("--out", required=True)
    ap.add_argument("--canary", action="store_true")
    a = ap.parse_args()
    g = generate(a.repo, a.tpl, a.out, a.canary)
    for u in g.units:
        print("%-40s %-6s %s:%s gen %d-%d tags=%s" % (u.name, u.kind, u.src_file, u.src_line, u.gen_start, u.gen_end, ",".join(u.tags)))
