"""T9: obtain rustc's own expansion of `construct!` (a macro_rules macro in /repo/src/lib.rs) for small arities.

A three-function client crate with a path dependency on the repository is expanded with
`cargo +nightly rustc -- -Zunpretty=expanded`; the closure literal the macro produces is cut out unchanged
(only `::bpaf::` path prefixes are re-rooted)."""
import os
import re
import subprocess
import sys

sys.path.insert(0, os.path.dirname(os.path.abspath(__file__)))
from rustlex import lex, match_close, AnchorError

CLIENT = '''use bpaf::*;
pub fn c2<A: Parser<u8>, B: Parser<u16>>(a: A, b: B) -> impl Parser<(u8, u16)> { construct!(a, b) }
pub fn c3<A: Parser<u8>, B: Parser<u16>, C: Parser<u32>>(a: A, b: B, c: C) -> impl Parser<(u8, u16, u32)> { construct!(a, b, c) }
pub fn c4<A: Parser<u8>, B: Parser<u16>, C: Parser<u32>, D: Parser<u64>>(a: A, b: B, c: C, d: D) -> impl Parser<(u8, u16, u32, u64)> { construct!(a, b, c, d) }
'''

_cache = {}


def expand_construct(repo: str, work: str):
    key = os.path.abspath(repo)
    if key in _cache:
        return _cache[key]
    d = os.path.join(work, "construct_client")
    os.makedirs(os.path.join(d, "src"), exist_ok=True)
    with open(os.path.join(d, "Cargo.toml"), "w") as f:
        f.write('[package]\nname = "construct_client"\nversion = "0.0.0"\nedition = "2021"\n[dependencies]\nbpaf = { path = "%s" }\n[workspace]\n' % key)
    with open(os.path.join(d, "src", "lib.rs"), "w") as f:
        f.write(CLIENT)
    env = dict(os.environ, CARGO_NET_OFFLINE="true")
    env.pop("RUSTFLAGS", None)
    p = subprocess.run(["cargo", "+nightly", "rustc", "--offline", "--lib", "--", "-Zunpretty=expanded"],
                       cwd=d, capture_output=True, text=True, env=env)
    if p.returncode != 0:
        raise AnchorError("construct! expansion failed (rustc): " + p.stderr[-1500:])
    out = {}
    text = p.stdout
    toks = lex(text)
    for name in ("c2", "c3", "c4"):
        m = re.search(r"\bpub fn %s\b" % name, text)
        if not m:
            raise AnchorError("construct! expansion: fn %s not found" % name)
        # first `move |failfast` after the fn header
        k = text.find("move |failfast", m.end())
        nxt = re.search(r"\bpub fn \w+", text[m.end():])
        if k < 0 or (nxt and k > m.end() + nxt.start()):
            raise AnchorError("construct! expansion: product closure of %s not found (macro shape changed)" % name)
        ti = [i for i, t in enumerate(toks) if t.start == k][0]
        # closure = `move |...| { ... }`
        j = ti + 1
        bars = 0
        while bars < 2:
            if toks[j].text == "|":
                bars += 1
            j += 1
        while toks[j].text != "{":
            j += 1
        e = match_close(toks, j)
        params_end = [i for i in range(ti, j) if toks[i].text == "|"][-1]
        head = text[toks[ti].start:toks[params_end].end]
        body = text[toks[j].start:toks[e].end]
        out[name] = (head.replace("::bpaf::", ""), body.replace("::bpaf::", ""))
    _cache[key] = out
    return out


if __name__ == "__main__":
    r = expand_construct(sys.argv[1] if len(sys.argv) > 1 else "/repo", "/verif/out/dev")
    for k, (h, b) in r.items():
        print(k, h)
        print(b)
