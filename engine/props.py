"""Per-property metadata used for evidence files (levels, scope statements)."""

EXTRACTION_RULES = [
    "T1 visibility: pub(crate)/pub(super)/private -> pub on extracted items and struct fields",
    "T2 attributes other than #[cfg]/#[cfg_attr] dropped (#[inline], #[must_use], #[allow], #[doc], #[derive]); doc comments kept as comments",
    "T3 ghost text spliced: named return `-> (r: T)`, requires/ensures/decreases between signature and body, loop invariants before the n-th loop body, anchored ghost insertions (closure parameter types, closure ensures, braces, proof blocks) listed per unit under ghost_insertions",
    "T4 `impl Iterator for X` extracted as inherent impl; `Self::Item` replaced by the declared associated type",
    "T5 std provided methods (Iterator::find/find_map) replaced by inherent shims with the std default loop body, verified against next()",
    "T6 #[derive(Clone)] replaced by an external_body clone with `ensures r == *self`",
    "T8 leaf types whose contents no unit reads are opaque external types",
    "trait impls: only the fns named by a unit are extracted; every dropped sibling fn is listed under extraction_drops",
]

TRUSTED_COMMON = [
    "Verus 0.2026.09.13 + Z3 (soundness of the verifier, vstd's std specifications)",
    "the template expander pastes byte ranges of /repo/src unchanged apart from T1-T8",
    "meta-argument: every parser a user can build is a tree of the combinators under contract (no closed universe of Parser impls to induct over)",
]

ASSUMPTIONS_COMMON = [
    "machine integers are machine integers (Verus checks usize overflow/underflow); nothing is treated as mathematical",
    "no unsafe code in bpaf src/; none introduced",
    "user closures (guard/parse/map/fallback_with) are total and side-effect free; known only through their ensures",
]

PROPS = {}
HOOK_COMMITS = []
WIP = "check not built yet in this framework (work in progress; see DESIGN.md section 6 for the plan)"
NOT_APPLICABLE = {
    "C13": "console wrapping is str-slicing code outside Verus' subset and quantifies over all texts x widths 1..=300; Kani at <=4 characters says nothing about wrapping; no contract within reach decides it",
    "C17": "equality of proc-macro output with hand-written combinators is translation validation of two programs, not a contract on a function; the proc-macro crate is not a Kani target and Verus has no syn model",
}
for _p in ["C%02d" % i for i in range(1, 21)]:
    NOT_APPLICABLE.setdefault(_p, WIP)


def prop(pid, level, explanation, not_covered, assumptions=(), claim="", note="", technique="", **kw):
    PROPS[pid] = dict(level=level, explanation=explanation, not_covered=list(not_covered), assumptions=list(assumptions),
                      claim=claim or explanation, note=note or "; ".join(TRUSTED_COMMON), technique=technique or "Verus deductive verification of extracted real function bodies against spliced contracts", **kw)


prop("C05", "proof",
     "ledger argument: an item becomes Parsed only through State::remove on an in-scope present index; iteration yields only available items; every consumer marks exactly the items it returns; wrappers restore the state on a caught failure; Ok from run_subparser implies nothing available remains",
     ["scope restoration inside ParseAdjacent/ParseCommand"])
