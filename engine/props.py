"""Per-property metadata used for evidence files (levels, scope statements)."""

EXTRACTION_RULES = [
    "T1 visibility: pub(crate)/pub(super)/private -> pub on extracted items and struct fields",
    "T2 attributes other than #[cfg]/#[cfg_attr] dropped (#[inline], #[must_use], #[allow], #[doc], #[derive]); doc comments kept as comments",
    "T3 ghost text spliced: named return `-> (r: T)`, requires/ensures/decreases between signature and body, loop invariants before the n-th loop body, anchored ghost insertions (closure parameter types, closure ensures, braces, proof blocks) listed per unit under ghost_insertions",
    "T4 `impl Iterator for X` extracted as inherent impl; `Self::Item` replaced by the declared associated type",
    "T5 std provided methods (Iterator::find/find_map) replaced by inherent shims with the std default loop body, verified against next()",
    "T6 #[derive(Clone)] replaced by an external_body clone with `ensures r == *self`",
    "T3b closure parameters that are patterns: `|(a, b)| e` -> `|p: T| { let (a, b) = p; e }`",
    "T8 leaf types whose contents no unit reads are opaque external types",
    "T8b one field type (`Args.items: Box<dyn ExactSizeIterator<..>>`) replaced in the struct declaration by an opaque stand-in type with one assumed operation",
    "T8c the implicit unsizing coercion of `Box::new(value)` into that field (Args::current_args) is made explicit as a call of an assumed function `ArgsItems::unsize` wrapped around the unchanged expression (ghost insertion listed under the unit)",
    "T9 the closure literal of construct!(a, b) / (a, b, c) is cut out of rustc's own macro expansion of a client crate",
    "T10 #[cfg(feature = ..)] on fn parameters, call arguments and fields is evaluated by the extractor for the configuration being generated",
    "T11 `for PAT in EXPR { B }` -> `{ let mut it = EXPR [or IntoIterator::into_iter(EXPR)]; loop { let PAT = match it.next() { Some(x) => x, None => break }; B } }` (the Rust reference's desugaring) where the unit says so",
    "T11b reference patterns in a `for` binder: the reference is bound and `let x = *r;` opens the body",
    "T12 byte-string literals written as array literals of the same bytes (same value, same type &[u8; N])",
    "`subst`: declared textual substitutions inside type/const declarations only (T8b; `&str` -> `&'static str` in a const)",
    "trait impls: only the fns named by a unit are extracted; every dropped sibling fn is listed under extraction_drops",
]

TRUSTED_COMMON = [
    "Verus 0.2026.09.13 + Z3 (soundness of the verifier, vstd's std specifications)",
    "the template expander pastes byte ranges of /repo/src unchanged apart from T1-T8",
    "meta-argument: every parser a user can build is a tree of the combinators under contract (no closed universe of Parser impls to induct over)",
]

ASSUMPTIONS_COMMON = [
    "machine integers are machine integers (Verus checks usize overflow/underflow); nothing is treated as mathematical",
    "no unsafe code in bpaf src/; none introduced",
    "user closures (guard/parse/map/fallback_with) are total and side-effect free; known only through their ensures",
]

PROPS = {}
HOOK_COMMITS = ["037ca8c"]
WIP = "check not built yet in this framework (work in progress; see DESIGN.md section 6 for the plan)"
NOT_APPLICABLE = {
    "C13": "console wrapping is str-slicing code outside Verus' subset and quantifies over all texts x widths 1..=300; Kani at <=4 characters says nothing about wrapping; no contract within reach decides it",
    "C17": "equality of proc-macro output with hand-written combinators is translation validation of two programs, not a contract on a function; the proc-macro crate is not a Kani target and Verus has no syn model",
}
for _p in ["C%02d" % i for i in range(1, 21)]:
    NOT_APPLICABLE.setdefault(_p, WIP)


def prop(pid, level, explanation, not_covered, assumptions=(), claim="", note="", technique="", **kw):
    PROPS[pid] = dict(level=level, explanation=explanation, not_covered=list(not_covered), assumptions=list(assumptions),
                      claim=claim or explanation, note=note or "; ".join(TRUSTED_COMMON), technique=technique or "Verus deductive verification of extracted real function bodies against spliced contracts", **kw)


VERUS_NOTE = ("Proved tier: Verus/Z3 on the real function bodies extracted from /repo/src on every run (rules T1-T10); "
              "assumed: vstd std specs, the external_body/assume_specification items listed in coverage.trusted_base, "
              "the meta-argument from per-combinator contracts to arbitrary parser trees. Bounded Kani units are reported separately and never counted as proved.")

prop("C01", "proof",
     "mechanism-level proof: (M1) primitive consumers take the leftmost available matching item in scope and nothing else; "
     "(M3) repetition/optionality refine opt_rel/iter_rel (value kept only if something was consumed; failures swallowed only if catchable) and terminate; "
     "(M4) run_subparser returns Ok only if the inner parser succeeded and nothing available is left. The language-equality theorem itself is not derived.",
     ["equality of the accepted language with the grammar for an arbitrary combinator tree (meta-argument only)",
      "ParseMany/ParseCollect::eval bodies (from_fn(..).collect(), outside Verus)", "construct! at arities above 3", "the tokenizer (State::construct)"],
     note=VERUS_NOTE)
prop("C02", "proof",
     "value pick-up after tokenisation: take_arg returns exactly the payload of the item following the leftmost matching name (Word or ArgWord), "
     "marks exactly those two items, and `adjacent` accepts exactly the same-item spellings (matches_arg table). Tokenizer is outside this check.",
     ["split_os_argument / disambiguate_short (byte-level tokenizer): not under contract here", "parse_os_str pass-through"],
     note=VERUS_NOTE)
prop("C03", "proof",
     "named consumers find a matching item wherever it is in scope (found_iff_exists), consume the leftmost one, and positional consumers skip named items; "
     "the permutation theorem for whole parsers is a meta-argument over these.",
     ["the permutation theorem for whole parsers (meta-argument: every consumer is one of the verified primitives)"],
     note=VERUS_NOTE)
prop("C04", "proof",
     "absence of panics (index, overflow, unwrap) and termination of every function under contract, under the ledger invariant wf; "
     "every contract determines result and final state as a relation of the arguments only.",
     ["Message::render, render_console, markdown/html/manpage renderers, meta_youmean, completion rendering (check_complete) – outside both tools",
      "purity of user closures is assumed"],
     note=VERUS_NOTE)
prop("C05", "proof",
     "ledger argument: an item becomes Parsed only through State::remove on an in-scope present index; iteration yields only available items; every consumer marks exactly the items it returns; wrappers restore the state on a caught failure; Ok from run_subparser implies nothing available remains",
     ["scope restoration inside ParseAdjacent/ParseCommand"])

PROPS["C05"]["note"] = VERUS_NOTE
prop("C06", "proof",
     "error classes written from the statement (absence classes catchable; conversion/parse/guard/missing-value final) equal Message::can_catch; "
     "optional/some/count/last/fallback/fallback_with refine relations in which a default is produced only from a catchable inner failure "
     "(for Missing: only if nothing was consumed) and every other failure is returned unchanged; guard/parse attach the declared text and position.",
     ["final rendering of the text by Message::render", "many/collect bodies"],
     note=VERUS_NOTE)
prop("C07", "proof",
     "or_else decision table (this_or_that_picks_first + ParseOrElse::eval): deeper path wins; equal depth: both fail -> combined error, state untouched; one succeeds -> it; "
     "both succeed -> first if neither consumed, else the branch that consumed the leftmost differing item, the loser's items marked Conflict (still present => leftover failure). "
     "pick_winner/save_conflicts are used through assumed contracts.",
     ["pick_winner / save_conflicts bodies (iterator code): assumed contract", "rendering of the conflict message"],
     note=VERUS_NOTE)
prop("C08", "proof",
     "take_cmd succeeds only on the first available item with exactly the command's text (never PosWord/ArgWord/--x=..); deeper path wins in or_else; "
     "an inner level's final output passes through run_subparser untouched and leftovers of a level fail it.",
     ["ParseCommand::eval scope narrowing and path push (closures over &mut State inside iter().any, outside Verus)"],
     note=VERUS_NOTE)
prop("C09", "proof",
     "PosWord never matches a flag/argument name, command or help; take_positional_word reports strict <=> PosWord and delivers the word verbatim; "
     "StrictPos is final and NonStrictPos catchable.",
     ["State::construct (the `--` tokenizer rule)", "parse_pos_word strictness table (pending unit)"],
     note=VERUS_NOTE)
prop("C10", "proof",
     "run_subparser: unless the inner result is a final ParseFailure, a failed or incomplete parse consults Info::eval first and a help flag available anywhere in scope yields stdout, never a value; "
     "Error/Message::combine_with keep an inner final output; ParseFlag is used through an assumed relational contract.",
     ["ParseFlag::eval body (assumed contract)", "the state a failed ParseAdjacent hands back", "construct! first-failing-field (pending unit)"],
     note=VERUS_NOTE)
prop("C11", "proof",
     "exit_code table (stdout/completion -> 0, stderr -> 1) and run_subparser: a value only on success. "
     "Args::current_args (real body): the program name is the file name (Path::file_name, not the stem) of argv[0] when that is UTF-8 and absent otherwise, "
     "and the arguments handed to the parser are argv[1..] in order; State::construct starts the command path as exactly that name. "
     "The rest of the process-level part (run(): printing and process::exit) has no contract in either tool.",
     ["OptionParser::run in a real process: print_message and process::exit", "what std's Path::file_name / OsStr::to_str compute (uninterpreted functions; only *which* of them is applied to argv[0] is proved)"],
     note=VERUS_NOTE)
prop("C12", "proof",
     "item collection is proved: HelpItems::append_meta::go adds, for any metadata tree, exactly one entry per item (every item except a positional without help text; nothing for `hide`), in tree order, "
     "whatever groups/decorations surround them and whether or not sub-sections are flattened; each entry carries the item's first name, metavariable, help text and variable (HelpItem::from). "
     "hide/decorator wrappers do not change parsing and ParseHide::meta is Skip. peek_front_ty is assumed; de-duplication, rendering, usage normalisation and section order are not covered.",
     ["Meta::peek_front_ty (assumed: passes a fn item to find_map)", "Dedup / write_help_item / render_help", "usage normalisation (meta.rs normalize)", "that every Parser::meta mirrors what eval consumes"],
     note=VERUS_NOTE)
prop("C14", "proof",
     "narrow: with completion compiled in, run_subparser returns completion output (when check_complete produces one) before value, help and error, and only in completion mode; "
     "candidate assembly and filtering (complete_gen.rs) are string/iterator code outside both tools.",
     ["candidate assembly by side effects across parsers", "Complete::complete filtering", "check_complete and the shell renderers", "hide restoring the hint list exactly"],
     note=VERUS_NOTE, needs_autocomplete=True)
prop("C20", "proof",
     "the feature=\"autocomplete\" text of parse_option, ParseFallback(With), ParseHide, ParseGroupHelp, parse_pos_word, run_subparser and the State comp helpers verifies against the same contracts as the default text, "
     "with cfg-aware `restored/unchanged/eqc` that collapse to equality when `comp` is None (lemma.C20.inert_without_comp); completion hooks are assumed to touch only `comp`. "
     "Units whose text carries no cfg gate are listed as feature-independent (mechanical check).",
     ["tokenizer hooks (ArgScanner)", "ParseOrElse / this_or_that_picks_first completion pass (assumed in the autocomplete configuration)", "ParseCommand/ParseFlag gated branches", "docgen/batteries/derive/colour features"],
     note=VERUS_NOTE, needs_autocomplete=True)

prop("C19", "proof",
     "ParseAdjacent::eval is proved (for every inner parser that keeps its scope and consumes only inside it) to hand back the scope it was given and, on success, to have consumed exactly one "
     "contiguous run of previously available items inside that scope, starting at a candidate proposed by ArgRangesIter::next (available items of the scope, in command-line order); the retry loop terminates. "
     "These obligations exposed defects D8 and D10 (both fixed). set_scope / adjacently_available_from / adjacent_scope are used through assumed contracts that Kani checks within 3 items.",
     ["adjacent ParseCommand (closures over &mut State, outside Verus)", "set_scope/adjacently_available_from/adjacent_scope bodies: bounded (3 items) only",
      "the assumption on the group's inner parser (keeps scope, consumes inside it) is not proved for every member shape"],
     note=VERUS_NOTE)


KANI_NOTE = ("Bounded model checking (Kani 0.68 / CBMC 6.11) of the real functions compiled inside the crate through the cfg(kani) include hooks; "
             "every bound is stated per unit; nothing here is counted as proved. Trusted: Kani/CBMC, the harness's expected-output computation, ASCII assumptions where stated.")
prop("C15", "other",
     "bounded and narrow: the single-quote escaping wrapper `Shell` that every renderer is supposed to use turns every ASCII string of length <= 3 into exactly one single-quoted shell word "
     "(the transformation is character-local, so 3 characters exercise every transition). That the renderers route every user-derived string through it, one directive per line, exactly once, is NOT decided "
     "(format!/writeln! code is out of reach of both tools; defects D2/D3 of DESIGN.md section 7 are of that kind).",
     ["render_bash/zsh/fish/simple, check_complete, static completer stubs"],
     note=KANI_NOTE, technique="Kani bounded model checking of the real Shell Display impl (bounded stand-in)")
prop("C16", "other",
     "narrow: html style transitions (change_style) close what is open in reverse nesting order and open the new set, for all 8x8 style pairs (complete: loop free, full domain), which is the mechanism behind "
     "'all tags are balanced'. Roff escaping could not be brought within reach of either tool (CBMC exceeds 30 minutes on `escape` even for concrete 2-byte inputs; Verus cannot read its byte loops): "
     "defect D6 there was found by reading and is fixed, but no obligation guards it. Section completeness, angle-bracket escaping and markdown are not decided.",
     ["roff escape()/Roff rendering (K08 dropped after measurement)", "extract_sections / section completeness", "render_html loop (`<`/`>` replacement)", "markdown rendering"],
     note=KANI_NOTE, technique="Kani model checking of change_style over its full finite domain (complete for that function)")
prop("C18", "other",
     "bounded: ParseFlag::eval and ParseArgument::take_argument on 2 items with std::env::var_os replaced by a nondeterministic stub (so every environment state is covered): "
     "a name on the line wins and the variable is not consulted; the variable is used only when the name is absent from the line; both absent gives the absent value / Missing; "
     "a present name with a missing value is a final error that the variable does not paper over; variables other than the declared one are never read. "
     "The same behaviour is what the Verus tier assumes as flag_rel / arg_rel.",
     ["interaction with wrappers beyond what parse_option/fallback give generically", "help rendering of variable state"],
     note=KANI_NOTE, technique="Kani bounded model checking with std::env::var_os stubbed (bounded stand-in for an assumed Verus contract)")
PROPS["C02"]["not_covered"] = ["split_os_argument beyond the bounds of K03 (ASCII <= 3 bytes, fixed non-ASCII families)", "disambiguate_short / collect_shorts", "parse_os_str pass-through"]
PROPS["C02"]["claim"] = PROPS["C02"]["explanation"] = (
    "value pick-up after tokenisation is proved (take_arg returns exactly the payload of the item following the leftmost matching name, marks exactly those two items; `adjacent` accepts exactly the same-item spellings); "
    "the byte-level tokenizer split_os_argument is checked by Kani within bounds only (all ASCII strings of length 2 and 3, `-c=v`/`--c=v` with a two-byte character c and any byte v, `-cw=v`).")
PROPS["C02"]["not_covered"] = ["split_os_argument beyond the bounds of K03 (ASCII <= 3 bytes, fixed non-ASCII families)", "disambiguate_short (K02 dropped)", "parse_os_str pass-through"]
PROPS["C02"]["claim"] = PROPS["C02"]["explanation"] = PROPS["C02"]["explanation"] + " Meta::collect_shorts (the short-name tables the tokenizer disambiguates clusters with) is proved to collect every reachable flag/argument item's short names."


def scan_interior_state(repo):
    """C04 purity, assumption check (not a proof): no interior mutability or global mutable state in src/ outside tests"""
    import glob, os, re
    pat = re.compile(r"\b(static\s+mut|RefCell|Cell<|Mutex|RwLock|Atomic[A-Z]\w*|thread_local!|OnceCell|OnceLock|lazy_static)\b")
    hits = []
    files = 0
    for f in sorted(glob.glob(os.path.join(repo, "src", "**", "*.rs"), recursive=True)):
        if f.endswith("tests.rs") or "/docs2/" in f or f.endswith("_documentation.rs"):
            continue
        files += 1
        for n, l in enumerate(open(f, encoding="utf-8"), 1):
            code = l.split("//")[0]
            if pat.search(code):
                hits.append("%s:%d: %s" % (os.path.relpath(f, repo), n, code.strip()[:80]))
    return {"files_scanned": files, "hits": hits, "note": "textual scan; an assumption check, not a proof"}

PROPS["C08"]["not_covered"] = ["ParseCommand::eval beyond K12's bounds (closures over &mut State keep it outside Verus): path push, short aliases, the adjacent retry path (defect D9 was there; its scenario ran CBMC out of memory)"]
PROPS["C08"]["claim"] = PROPS["C08"]["explanation"] = PROPS["C08"]["explanation"] + (
    " ParseCommand::eval is checked by Kani within bounds (K12: command name + 2 items with every ledger; the inner parser is a probe that records the scope it is given): "
    "the subcommand's parser sees exactly the items from the name to the end of the enclosing scope, whatever the enclosing level already claimed; for an adjacent command exactly the available run after the name, and the enclosing scope is handed back.")

PROPS["C09"]["not_covered"] = ["split_os_argument / disambiguate_short (assumed inside State::construct: 'never produce a PosWord')", "State::construct with the autocomplete feature (completion scanner hooks): assumed there", "correspondence of the positional items after `--` with the raw words (only their kind and ledger state are proved)"]
PROPS["C09"]["claim"] = PROPS["C09"]["explanation"] = (
    "the tokenizer driver State::construct is proved to implement the separator rule: nothing is a PosWord before the first literal `--`, that `--` itself is the first PosWord and is pre-consumed "
    "(marked by *item* index, whatever multi-item words precede it), every later item is a PosWord and unconsumed, the ledger is well formed over the whole line. "
    "Downstream: PosWord never matches a flag/argument name, command or value; take_positional_word reports strict <=> PosWord and delivers the word verbatim; parse_pos_word implements the strictness table; "
    "StrictPos is final and NonStrictPos catchable.")

prop("C16", "proof",
     "section extraction is proved (docgen configuration): extract_sections emits the section of a level followed, for every visible command of that level in item-list order, by the sections of that command "
     "with the path extended by its name - every level reachable through visible subcommands, once, in order, nothing for hidden ones (functional correctness; termination of the recursion is not proved). "
     "html style transitions (change_style) close/open tags in nesting order for all 8x8 style pairs (Kani, complete for that function). Roff escaping is out of reach of both tools (defect D6 there was found by reading); "
     "angle-bracket escaping, markdown and the per-section rendering are not decided.",
     ["roff escape()/Roff rendering (K08 dropped after measurement)", "render_html loop (`<`/`>` replacement)", "markdown rendering", "rendering of each section (write_help_item etc.)", "termination of extract_sections"],
     note=VERUS_NOTE, needs_docgen=True,
     technique="Verus proof of extract_sections against `levels` (docgen configuration) + Kani model checking of change_style over its full domain")

# ---- later coverage (disambiguate_short, run_inner, HelpItemsIter, roff escape)
PROPS["C02"]["not_covered"] = ["split_os_argument beyond the bounds of K03 (ASCII <= 3 bytes, fixed non-ASCII families)", "parse_os_str pass-through"]
PROPS["C02"]["claim"] = PROPS["C02"]["explanation"] = PROPS["C02"]["explanation"] + (
    " disambiguate_short (the `-abc` cluster splitter) is proved, for every String and every pair of name tables, against vstd's UTF-8 model: "
    "a cluster is its flags one by one, then at most one argument name whose value is exactly the remaining chars (sliced at a char boundary, so no panic on "
    "multi-byte names), or the whole word kept as a positional, or the ambiguity error; items of earlier words are never touched.")
PROPS["C04"]["claim"] = PROPS["C04"]["explanation"] = PROPS["C04"]["explanation"] + (
    " String slicing in disambiguate_short is proved to happen at char boundaries (vstd UTF-8 model); the roff escape() byte loop and HelpItemsIter::next are panic free and their inner loops terminate.")
PROPS["C05"]["claim"] = PROPS["C05"]["explanation"] = PROPS["C05"]["explanation"] + (
    " disambiguate_short only appends to the item list (frame proved), so splitting one word never drops or rewrites items of earlier words.")
PROPS["C09"]["not_covered"] = ["split_os_argument (assumed inside State::construct: an attached value is an ArgWord, a short name is not empty; bounded by K03)", "ArgScanner hooks in the autocomplete configuration (assumed)", "correspondence of the positional items after `--` with the raw words (only their kind and ledger state are proved)"]
PROPS["C11"]["claim"] = PROPS["C11"]["explanation"] = PROPS["C11"]["explanation"] + (
    " OptionParser::run_inner (real body, both feature configurations) returns a value only through run_subparser on the state State::construct built for the whole line, "
    "and never when tokenisation reported an ambiguity outside completion mode (guards defect D13).")
PROPS["C10"]["claim"] = PROPS["C10"]["explanation"] = PROPS["C10"]["explanation"] + (
    " run_inner reports an ambiguous short cluster before anything else and otherwise hands the tokenised line to run_subparser.")
PROPS["C12"]["not_covered"] = ["Meta::peek_front_ty (assumed: passes a fn item to find_map; a Kani harness on 2-3 hand-built children ran CBMC out of memory)", "Dedup / write_help_item / render_help", "usage normalisation (meta.rs normalize)", "that every Parser::meta mirrors what eval consumes", "items inside an `anywhere` block without help text are not listed (by design of HelpItemsIter)"]
PROPS["C12"]["claim"] = PROPS["C12"]["explanation"] = PROPS["C12"]["explanation"] + (
    " The three item lists are proved to partition the collected entries: HelpItemsIter::next (real loop) yields, in order, exactly the entries `listed_under` the requested list; "
    "every entry outside an `anywhere` block is listed under exactly one of options / commands / positionals (flags, arguments and anywhere-items under options, commands under commands, positionals under positionals), never under two.")
PROPS["C16"]["not_covered"] = ["angle-bracket escaping in the HTML/markdown renderers", "per-section rendering (render_markdown / render_manpage bodies)", "Roff::control / plaintext (which escaping class each kind of text is written with: read, not proved)", "termination of extract_sections' recursion and of escape's outer loop over the caller's iterator"]
PROPS["C16"]["claim"] = PROPS["C16"]["explanation"] = (
    "section extraction is proved (docgen configuration): extract_sections emits the section of a level followed, for every visible command of that level in item-list order, by the sections of that command "
    "with the path extended by its name - every level reachable through visible subcommands, once, in order, nothing for hidden ones. "
    "Roff escaping is proved: the real byte loop of escape() writes, for every fragment sequence and every byte, exactly what the escaping table says (request arguments: space/newline/backslash escaped; "
    "text: `\\&` before `.`/`'` at a line start, backslash and dash escaped, apostrophe replaced), and from that table: user text never puts `.` or `'` at the start of an output line, the line-start flag is set after every newline written, "
    "a request argument never contains a newline (lemmas lemma.C16.*; defect D6 and seeded change C16-m1 fail these obligations). html style transitions (change_style) close/open tags in nesting order for all 8x8 style pairs (Kani, complete for that function).")
PROPS["C16"]["technique"] = "Verus proofs of extract_sections against `levels` and of escape() against the roff escaping table (docgen configuration) + Kani model checking of change_style over its full domain"

# ---- C18 after ParseFlag::eval / take_argument came under contract
prop("C18", "proof",
     "the environment fallback is proved on the real bodies (default feature set): ParseFlag::eval and ParseArgument::take_argument refine flag_rel / arg_rel for every item list, ledger, scope, "
     "name set and every environment (the environment is an uninterpreted function env_var from variable names to values): an item on the line always wins and the environment is not even "
     "consulted for the result; otherwise the value of the FIRST declared variable that is set is used (env_value: declaration order), for flags `present`; otherwise the default / a catchable "
     "Missing or NoEnv error, with the state untouched. Only variables the parser declares are read (the result is a function of env_var on `named.env`). "
     "`env.iter().find_map(std::env::var_os)` is verified through an assumed spec of slice::Iter::find_map and of var_os. "
     "The same two functions are checked again, independently and with completion compiled in, by the bounded Kani units K10 (std::env::var_os stubbed nondeterministically).",
     ["conversion/validation of the variable's value (shared with typed values: ParseArgument::eval + parse_os_str, uninterpreted)",
      "the autocomplete text of the two functions (assumed there; K10 bounded)",
      "ParseCommand / positional items have no environment fallback (nothing to check)",
      "std::env::var_os itself, and that the environment does not change during a run"],
     note=VERUS_NOTE,
     technique="Verus proof of ParseFlag::eval and ParseArgument::take_argument against flag_rel/arg_rel over an uninterpreted environment + Kani bounded model checking (K10) with std::env::var_os stubbed")
PROPS["C06"]["claim"] = PROPS["C06"]["explanation"] = PROPS["C06"]["explanation"] + (
    " The environment branch is no longer assumed: take_argument / ParseFlag::eval are proved to report absence (Missing/NoEnv, catchable) only when the item is neither on the line nor set through a declared variable.")
PROPS["C12"]["claim"] = PROPS["C12"]["explanation"] = PROPS["C12"]["explanation"] + (
    " The item a flag/argument is listed as is built from its first short and first long name, its first variable, its metavariable and help (ShortLong::try_from, NamedArg::flag_item, ParseArgument::item: real bodies).")

# ---- C15 after the Shell quoting wrapper came under contract
prop("C15", "proof",
     "the quoting mechanism is proved for every string (autocomplete configuration): `impl Display for Shell` (the wrapper every bash/zsh renderer passes data through; real body) writes "
     "exactly `quoted(text)` = the text inside single quotes with each `'` spelled `'\\''`, and lemma.C15.shell_word_is_data shows that a POSIX shell word reader (single-quoted stretches literal, "
     "backslash-escape outside quotes, anything else outside quotes rejected as 'not plain data') reads that output back as ONE complete word whose value is the original text - nothing is split, "
     "expanded, executed or left unterminated, for all texts including quotes, newlines, `$(..)`, backslashes and non-ASCII. The same function is cross-checked by Kani (K05) on all ASCII strings of "
     "length 2 (quick) and 3 (thorough). What is NOT decided: that every renderer passes every data string through `Shell` (defect D2 was exactly such a missed call site, found by reading), "
     "the one-directive-per-line structure (D3), fish/elvish escaping, 'each candidate exactly once'.",
     ["call sites: render_bash/zsh/fish/elvish are `format!`/`writeln!` code outside both tools (D2, D3 were there)", "fish and elvish quoting rules", "each candidate / shell completer appears exactly once", "that sourcing the whole output only adds candidates (needs a model of compadd/complete/_filedir)"],
     note=VERUS_NOTE, needs_autocomplete=True,
     technique="Verus proof of the real Shell Display impl against `quoted` + inverse lemma against a POSIX single-quote word reader; Kani bounded model checking of the same function (K05)")

# ---- ParseFlag::eval / take_argument verified in the autocomplete configuration as well (D7 found there)
PROPS["C18"]["not_covered"] = [x for x in PROPS["C18"]["not_covered"] if not x.startswith("the autocomplete text")]
PROPS["C18"]["claim"] = PROPS["C18"]["explanation"] = PROPS["C18"]["explanation"].replace("(default feature set)", "(both feature configurations)")
PROPS["C20"]["claim"] = PROPS["C20"]["explanation"] = PROPS["C20"]["explanation"] + (
    " ParseFlag::eval and ParseArgument::take_argument (gated completion hooks inside) verify against the same flag_rel / arg_rel in both configurations; "
    "verifying the gated text exposed defect D7 (underflow in touching_last_remove on an empty line in completion mode), now fixed.")
PROPS["C04"]["claim"] = PROPS["C04"]["explanation"] = PROPS["C04"]["explanation"] + (
    " touching_last_remove no longer needs a precondition: the empty-line underflow (D7) was a reachable panic and is fixed.")

# ---- completion hooks and candidate list under contract
PROPS["C14"]["not_covered"] = ["Complete::complete (filtering of the collected candidates against the typed word: arg_matches / cmd_matches are format!/strip_prefix code)", "check_complete / rendering for the shells", "ParseCommand's and ParseOrElse's completion passes", "user completers (ParseComp) and their values"]
PROPS["C14"]["claim"] = PROPS["C14"]["explanation"] = PROPS["C14"]["explanation"] + (
    " Candidate collection is proved on the real bodies (autocomplete configuration): every completion hook (push_flag, push_argument, push_metavar, push_command, push_pos_sep, clear_comps; "
    "Complete::swap_comps, State::swap_comps_with) changes nothing but the candidate list, appends exactly one candidate carrying the item's declared first names / metavariable / command name at the current "
    "command depth (none for an item without a name), and does nothing outside completion mode; ParseHide::eval is proved to leave the candidate list exactly as it was "
    "(lemma.C14.hidden_items_offer_no_candidates), so hidden items are never offered; completion mode never starts or ends in the middle of a run (trait invariant).")
PROPS["C20"]["claim"] = PROPS["C20"]["explanation"] = PROPS["C20"]["explanation"] + (
    " The completion hooks themselves are no longer assumed: their real bodies are proved to be inert when `comp` is None.")

# ---- meta() of the primitive items under contract; docgen configuration in the thorough tier of C12 / C20
PROPS["C12"]["thorough_docgen"] = True
PROPS["C20"]["thorough_docgen"] = True
PROPS["C12"]["claim"] = PROPS["C12"]["explanation"] = PROPS["C12"]["explanation"] + (
    " What a flag / argument shows about itself is tied to what it accepts: ParseFlag::meta and ParseArgument::meta (real bodies, with Item::required and Meta::from) show the item under "
    "first_names(named), in optional brackets iff a default exists, nothing for an item without a name; lemma.C12.shown_name_is_accepted: those names satisfy the matcher (matches_spec) that "
    "take_flag / take_arg are proved to use - every name shown for a primitive item is accepted by it.")
PROPS["C12"]["not_covered"] = [x for x in PROPS["C12"]["not_covered"] if not x.startswith("that every Parser::meta")] + ["Parser::meta of the wrapper combinators and of commands / positionals (not under contract)"]
PROPS["C20"]["claim"] = PROPS["C20"]["explanation"] = PROPS["C20"]["explanation"] + (
    " In the thorough tier every unit is verified a third time with feature docgen (no parsing unit has a docgen gate; the gated HelpItem::Command field is handled by a cfg'd spec).")
PROPS["C14"]["claim"] = PROPS["C14"]["explanation"] = PROPS["C14"]["explanation"] + (
    " ArgScanner::done / Complete::new (real bodies): completion mode exists iff the completion marker was seen, and starts with no candidates.")
PROPS["C18"]["claim"] = PROPS["C18"]["explanation"] = PROPS["C18"]["explanation"] + (
    " lemma.C18.undeclared_variables_are_irrelevant: the value read depends on the environment only at the declared names (two environments that agree there give the same result).")
PROPS["C12"]["claim"] = PROPS["C12"]["explanation"] = PROPS["C12"]["explanation"] + (
    " ParsePositional::meta (real body): a positional is shown with its metavariable and help, behind the `--` marker (Meta::Strict) iff it is `strict`.")
PROPS["C09"]["claim"] = PROPS["C09"]["explanation"] = PROPS["C09"]["explanation"] + (
    " lemma.C09.separator_is_never_delivered: in the state State::construct builds and in every state reachable under the trait invariant, the first `--` is unavailable to every consumer, "
    "everything after it is a PosWord and nothing before it is.")

# ---- session 3: process entry under contract; the value slot of an argument is part of C14
PROPS["C14"]["claim"] = PROPS["C14"]["explanation"] = PROPS["C14"]["explanation"] + (
    " Which item counts as 'the item being typed' for an argument's value completer is decided by State::take_arg -> ParseArgument::take_argument -> ParseArgument::eval; their contracts "
    "(the value is the Word/ArgWord right after the leftmost matching name, never a PosWord or another name) are obligations of this check too.")
# the tokenizer's completion hook sits inside the separator logic: C09 and C11 are checked in the autocomplete configuration too
PROPS["C09"]["needs_autocomplete"] = True
PROPS["C11"]["needs_autocomplete"] = True
PROPS["C09"]["claim"] = PROPS["C09"]["explanation"] = PROPS["C09"]["explanation"] + (
    " State::construct (both configurations): every raw word from the first `--` on becomes exactly one positional-only item carrying that word, in order (tail_raw) - "
    "nothing after the separator is dropped, split, or read as a completion control word.")
PROPS["C09"]["not_covered"] = [x for x in PROPS["C09"]["not_covered"] if not x.startswith("correspondence of the positional items")]
PROPS["C11"]["claim"] = PROPS["C11"]["explanation"] = PROPS["C11"]["explanation"] + (
    " Words after `--` can never turn a run into completion output: State::construct hands each of them on as a positional item (checked in the autocomplete configuration as well).")
