"""Minimal Rust lexer and item locator used by the extractor.

It does not build a syntax tree.  It tokenises (comments, strings, raw strings,
char literals vs lifetimes are recognised so that brace matching is exact) and
finds *items* (fn / struct / enum / impl / mod / trait / ...) by bracket matching.
Everything that is pasted into the generated Verus file is a byte range of the
original source text.
"""
from dataclasses import dataclass, field
from typing import List, Optional, Tuple


class LexError(Exception):
    pass


class AnchorError(Exception):
    """An item/anchor named by a unit is not present (any more) in the source."""


@dataclass
class Tok:
    kind: str  # ws, lcomment, bcomment, doc, str, char, life, ident, num, punct
    text: str
    start: int
    end: int
    line: int


OPEN = {"(": ")", "[": "]", "{": "}"}
CLOSE = {")": "(", "]": "[", "}": "{"}


def lex(src: str) -> List[Tok]:
    toks: List[Tok] = []
    i, n, line = 0, len(src), 1

    def add(kind, j):
        nonlocal i, line
        t = src[i:j]
        toks.append(Tok(kind, t, i, j, line))
        line += t.count("\n")
        i = j

    while i < n:
        c = src[i]
        if c in " \t\r\n":
            j = i
            while j < n and src[j] in " \t\r\n":
                j += 1
            add("ws", j)
        elif src.startswith("//", i):
            j = src.find("\n", i)
            if j < 0:
                j = n
            kind = "doc" if (src.startswith("///", i) and not src.startswith("////", i)) or src.startswith("//!", i) else "lcomment"
            add(kind, j)
        elif src.startswith("/*", i):
            depth, j = 1, i + 2
            while j < n and depth:
                if src.startswith("/*", j):
                    depth += 1
                    j += 2
                elif src.startswith("*/", j):
                    depth -= 1
                    j += 2
                else:
                    j += 1
            if depth:
                raise LexError("unterminated block comment at line %d" % line)
            add("bcomment", j)
        elif c == '"' or (c in "bc" and src.startswith('"', i + 1)):
            j = i + (1 if c == '"' else 2)
            while j < n and src[j] != '"':
                j += 2 if src[j] == "\\" else 1
            if j >= n:
                raise LexError("unterminated string at line %d" % line)
            add("str", j + 1)
        elif (c == "r" or (c in "bc" and src.startswith("r", i + 1))) and _raw_start(src, i):
            k = i + (1 if c == "r" else 2)
            h = 0
            while src[k] == "#":
                h += 1
                k += 1
            term = '"' + "#" * h
            j = src.find(term, k + 1)
            if j < 0:
                raise LexError("unterminated raw string at line %d" % line)
            add("str", j + len(term))
        elif c == "'" or (c == "b" and src.startswith("'", i + 1)):
            k = i + (1 if c == "'" else 2)
            # char literal or lifetime
            if k < n and src[k] == "\\":
                j = k + 2
                while j < n and src[j] != "'":
                    j += 1
                add("char", j + 1)
            elif k + 1 < n and src[k + 1] == "'":
                add("char", k + 2)
            elif k < n and (src[k].isalpha() or src[k] == "_") and c == "'":
                j = k
                while j < n and (src[j].isalnum() or src[j] == "_"):
                    j += 1
                if j < n and src[j] == "'" and j == k + 1:
                    add("char", j + 1)
                else:
                    add("life", j)
            else:
                # multi-byte char literal such as 'ñ'
                j = src.find("'", k)
                if j < 0 or j - k > 8:
                    raise LexError("bad char literal at line %d" % line)
                add("char", j + 1)
        elif c.isalpha() or c == "_":
            j = i
            while j < n and (src[j].isalnum() or src[j] == "_"):
                j += 1
            if j < n and src[j] == "!" and src[i:j] in ("macro_rules",):
                j += 1
            add("ident", j)
        elif c.isdigit():
            j = i
            while j < n and (src[j].isalnum() or src[j] == "_"):
                j += 1
            # 1.5 / 1e-3 are not needed for bracket matching; keep '.' separate except a.b digits
            add("num", j)
        else:
            for p in ("->", "=>", "::"):
                if src.startswith(p, i):
                    add("punct", i + len(p))
                    break
            else:
                add("punct", i + 1)
    return toks


def _raw_start(src, i):
    k = i + 1 if src[i] == "r" else i + 2
    while k < len(src) and src[k] == "#":
        k += 1
    return k < len(src) and src[k] == '"'


TRIVIA = ("ws", "lcomment", "bcomment", "doc")


def sig(toks: List[Tok], lo=0, hi=None) -> List[int]:
    """indices of significant (non-trivia) tokens in [lo,hi)"""
    hi = len(toks) if hi is None else hi
    return [k for k in range(lo, hi) if toks[k].kind not in TRIVIA]


def match_close(toks: List[Tok], k: int) -> int:
    """k indexes an opening bracket; return index of its closing bracket."""
    assert toks[k].text in OPEN, toks[k]
    depth = 0
    for j in range(k, len(toks)):
        t = toks[j]
        if t.kind != "punct":
            continue
        if t.text in OPEN:
            depth += 1
        elif t.text in CLOSE:
            depth -= 1
            if depth == 0:
                if OPEN[toks[k].text] != t.text:
                    raise LexError("mismatched bracket at line %d" % t.line)
                return j
    raise LexError("unclosed bracket at line %d" % toks[k].line)


ITEM_KW = {"fn", "struct", "enum", "union", "trait", "impl", "mod", "use", "type", "const", "static", "macro_rules!", "extern"}
QUALS = {"const", "unsafe", "async", "extern", "default", "pub"}


@dataclass
class Item:
    kind: str
    name: str
    attrs: List[Tuple[int, int]]  # token ranges [a,b) of `#[...]`
    first: int  # first token (attrs included)
    vis: Optional[Tuple[int, int]]  # token range of visibility
    kw: int  # token index of the keyword
    open: Optional[int]  # token index of `{` (block items) or None
    close: int  # token index of the last token of the item (`}` or `;`)
    trait_name: Optional[str] = None  # impl Trait for X
    self_name: Optional[str] = None  # impl ... X
    docs: List[int] = field(default_factory=list)


def parse_items(toks: List[Tok], lo: int, hi: int) -> List[Item]:
    """Parse the sequence of items found in toks[lo:hi] (a file or a `{}` body)."""
    items = []
    k = lo
    while True:
        while k < hi and toks[k].kind in TRIVIA:
            k += 1
        if k >= hi:
            break
        first = k
        attrs = []
        # inner attributes `#![..]` are skipped as items of their own
        while k < hi and toks[k].text == "#":
            j = k + 1
            while toks[j].kind in TRIVIA:
                j += 1
            inner = toks[j].text == "!"
            if inner:
                j += 1
                while toks[j].kind in TRIVIA:
                    j += 1
            if toks[j].text != "[":
                raise LexError("bad attribute at line %d" % toks[k].line)
            e = match_close(toks, j)
            if not inner:
                attrs.append((k, e + 1))
            k = e + 1
            while k < hi and toks[k].kind in TRIVIA:
                k += 1
            if inner:
                first = k
        if k >= hi:
            break
        vis = None
        if toks[k].text == "pub":
            v0 = k
            k += 1
            j = k
            while toks[j].kind in TRIVIA:
                j += 1
            if toks[j].text == "(":
                e = match_close(toks, j)
                k = e + 1
            vis = (v0, k)
            while toks[k].kind in TRIVIA:
                k += 1
        # qualifiers
        while toks[k].kind == "ident" and toks[k].text in ("unsafe", "async", "default") or (
            toks[k].text == "const" and _next_sig(toks, k).text in ("fn", "unsafe", "async", "extern")
        ) or (toks[k].text == "extern" and _next_sig(toks, k).kind == "str"):
            k += 1
            while toks[k].kind in TRIVIA or toks[k].kind == "str":
                k += 1
        kw = k
        t = toks[k]
        if t.kind != "ident" or t.text not in ITEM_KW:
            # macro invocation item such as `foo! { .. }` / `foo!(..);`
            kind, name = "macro", t.text
        else:
            kind = t.text
            name = ""
        # find the end of the item
        j = k + 1
        opn = None
        depth = 0
        block_kinds = ("fn", "struct", "enum", "union", "trait", "impl", "mod", "macro_rules!", "macro", "extern")
        while j < hi:
            tt = toks[j]
            if tt.kind == "punct":
                if tt.text in OPEN:
                    if tt.text == "{" and depth == 0 and kind in block_kinds:
                        opn = j
                        j = match_close(toks, j)
                        break
                    j = match_close(toks, j)
                elif tt.text == ";" and depth == 0:
                    break
            j += 1
        if j >= hi:
            raise LexError("item starting at line %d does not end" % toks[first].line)
        close = j
        if kind == "macro" and toks[close].text in ")]":
            # `foo!(..);`
            j2 = close + 1
            while j2 < hi and toks[j2].kind in TRIVIA:
                j2 += 1
            if j2 < hi and toks[j2].text == ";":
                close = j2
        it = Item(kind, name, attrs, first, vis, kw, opn, close)
        s = sig(toks, kw + 1, (opn if opn is not None else close))
        if kind in ("fn", "struct", "enum", "union", "trait", "mod", "type", "const", "static", "macro_rules!"):
            if s:
                it.name = toks[s[0]].text
        elif kind == "impl":
            _impl_names(toks, s, it)
        items.append(it)
        k = close + 1
    return items


def _next_sig(toks, k):
    j = k + 1
    while toks[j].kind in TRIVIA:
        j += 1
    return toks[j]


def _impl_names(toks, s, it):
    """impl<..> [Trait<..> for] Type<..> [where ..]"""
    # skip generics right after impl
    idx = 0
    if s and toks[s[0]].text == "<":
        depth = 0
        for idx, k in enumerate(s):
            if toks[k].text == "<":
                depth += 1
            elif toks[k].text == ">":
                depth -= 1
                if depth == 0:
                    idx += 1
                    break
    rest = s[idx:]
    # cut at `where` (depth 0)
    depth = 0
    cut = len(rest)
    for n_, k in enumerate(rest):
        tx = toks[k].text
        if tx in "<([":
            depth += 1
        elif tx in ">)]":
            depth -= 1
        elif tx == "where" and depth == 0:
            cut = n_
            break
    rest = rest[:cut]
    depth = 0
    for_at = None
    for n_, k in enumerate(rest):
        tx = toks[k].text
        if tx in "<([":
            depth += 1
        elif tx in ">)]":
            depth -= 1
        elif tx == "for" and depth == 0:
            # `for<'a>` HRTB has `<` next; a plain `for` separates trait and type
            if n_ + 1 < len(rest) and toks[rest[n_ + 1]].text == "<":
                continue
            for_at = n_
            break

    def last_path_ident(seq):
        depth = 0
        name = None
        for k in seq:
            tx = toks[k].text
            if tx in "<([":
                depth += 1
            elif tx in ">)]":
                depth -= 1
            elif depth == 0 and toks[k].kind == "ident" and tx not in ("dyn", "mut", "const"):
                name = tx
        return name

    if for_at is None:
        it.self_name = last_path_ident(rest)
    else:
        it.trait_name = last_path_ident(rest[:for_at])
        it.self_name = last_path_ident(rest[for_at + 1 :])
    it.name = it.self_name or ""


def body_items(toks, it: Item) -> List[Item]:
    assert it.open is not None
    return parse_items(toks, it.open + 1, it.close)
