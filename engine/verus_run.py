"""Run Verus on a generated file and map its diagnostics back to units / obligations."""
import json
import os
import re
import subprocess
import sys
import time
from dataclasses import dataclass, field
from typing import Dict, List, Optional

sys.path.insert(0, os.path.dirname(os.path.abspath(__file__)))
from gen import Generator, ShapeError, Unit, generate
from rustlex import AnchorError, LexError

VERUS = os.environ.get("VERUS", "verus")

# messages that mean "a proof obligation generated from the text could not be discharged"
OBLIGATION_MSG = re.compile(
    r"(postcondition not satisfied|precondition not satisfied|assertion failed|invariant not satisfied"
    r"|possible arithmetic underflow/overflow|possible division by zero|possible bit shift"
    r"|decreases not satisfied|could not prove termination|unable to prove assertion|constructed value may fail"
    r"|recommendation not met|assert_by|could not show invariant|unreachable\(\)|requires not satisfied"
    r"|fails to satisfy|unable to prove post-condition of closure|unable to prove|index out of bounds|may be out of bounds|cannot show invariant holds)",
    re.I,
)
RLIMIT_MSG = re.compile(r"(resource limit|rlimit)", re.I)
IGNORE_MSG = re.compile(r"^(aborting due to|For more information about this error)", re.I)


@dataclass
class Failure:
    unit: str
    label: str
    message: str
    gen_line: int
    rendered: str
    tags: List[str]
    src_file: Optional[str] = None
    src_line: Optional[int] = None

    @property
    def obligation(self):
        return "%s.%s" % (self.unit, self.label)


@dataclass
class RunResult:
    ok: bool = False
    fatal: Optional[str] = None  # cannot decide: anchor lost / shape / unsupported / crash
    failures: List[Failure] = field(default_factory=list)
    undecided: List[str] = field(default_factory=list)  # units hitting rlimit
    verified: int = 0
    errors: int = 0
    fn_times_ms: Dict[str, float] = field(default_factory=dict)
    smt_ms: float = 0.0
    wall_s: float = 0.0
    units: List[Unit] = field(default_factory=list)
    gen_path: str = ""
    cmd: str = ""
    dropped: List[str] = field(default_factory=list)
    raw_stderr: str = ""


def unit_at(units: List[Unit], line: int) -> Optional[Unit]:
    for u in units:
        if u.gen_start <= line <= u.gen_end:
            return u
    return None


def label_for(u: Unit, lo: int, hi: int) -> Optional[str]:
    for ln in range(lo, hi + 1):
        if ln in u.labels:
            return u.labels[ln]
    return None


def run(repo: str, tpl: str, out_dir: str, cfgs: List[str] = (), canary=False, seed: Optional[int] = None,
        rlimit: Optional[float] = None, name="main") -> RunResult:
    res = RunResult()
    os.makedirs(out_dir, exist_ok=True)
    gen_path = os.path.join(out_dir, name + ("_canary" if canary else "") + ".rs")
    res.gen_path = gen_path
    t0 = time.time()
    try:
        feats = [m.group(1) for c in cfgs for m in [re.match(r'feature="(.*)"$', c)] if m]
        g = generate(repo, tpl, gen_path, canary=canary, features=feats)
    except (AnchorError, ShapeError, LexError) as e:
        res.fatal = "%s: %s" % (type(e).__name__, e)
        return res
    res.units = g.units
    res.dropped = g.dropped
    cmd = [VERUS, os.path.basename(gen_path), "--output-json", "--time-expanded", "--error-format=json",
           "--multiple-errors", "4" if not canary else "0", "--no-report-long-running"]
    for c in cfgs:
        cmd += ["--cfg", c]
    if seed is not None:
        cmd += ["--smt-option", "smt.random_seed=%d" % seed]
    # resource limit per function: three times Verus' default (10), so that an unrelated edit of /repo that shifts the solver's
    # context does not push a unit that normally needs ~10% of the default over the edge; rlimit counts solver work, not time,
    # so the verdict on a given tree is the same on every machine
    cmd += ["--rlimit", str(rlimit if rlimit is not None else 30)]
    res.cmd = " ".join(cmd)
    p = subprocess.run(cmd, cwd=out_dir, capture_output=True, text=True)
    res.wall_s = time.time() - t0
    res.raw_stderr = p.stderr
    try:
        summary = json.loads(p.stdout)
    except Exception:
        summary = None
    diags = []
    for ln in p.stderr.split("\n"):
        ln = ln.strip()
        if ln.startswith("{"):
            try:
                diags.append(json.loads(ln))
            except Exception:
                pass
    fatal_msgs = []
    for d in diags:
        if d.get("level") != "error":
            continue
        msg = d.get("message", "")
        if IGNORE_MSG.match(msg):
            continue
        spans = d.get("spans", [])
        if RLIMIT_MSG.search(msg):
            u = None
            for s in spans:
                u = unit_at(g.units, s["line_start"])
                if u:
                    break
            res.undecided.append(u.name if u else "?")
            continue
        if not OBLIGATION_MSG.search(msg):
            fatal_msgs.append(d.get("rendered") or msg)
            continue
        # owner: the unit whose *body* the error is in
        def rank(s):
            lab = s.get("label") or ""
            if "function body" in lab or "at this exit" in lab or "at this loop" in lab or "at the call" in lab:
                return 0
            if s.get("is_primary"):
                return 1
            return 2

        owner = None
        for s in sorted(spans, key=rank):
            owner = unit_at(g.units, s["line_start"])
            if owner:
                break
        # label: clause that failed
        label = None
        fail_span = None
        for s in spans:
            lab = s.get("label") or ""
            if lab.startswith("failed"):
                fail_span = s
                break
        if fail_span is None:
            prim = [s for s in spans if s.get("is_primary")]
            fail_span = prim[0] if prim else (spans[0] if spans else None)
        if fail_span is not None:
            lu = unit_at(g.units, fail_span["line_start"])
            if lu is not None:
                label = label_for(lu, fail_span["line_start"], fail_span["line_end"])
                if label and owner is not None and lu.name != owner.name:
                    label = "call:%s.%s" % (lu.name, label)
        if label is None and fail_span is not None:
            # clause labels of hand-written declarations (e.g. the Parser trait contract)
            try:
                gl_lines = open(gen_path, encoding="utf-8").read().split("\n")
                for ln in range(fail_span["line_start"], fail_span["line_end"] + 1):
                    mm = re.search(r"//\s*#([A-Za-z0-9_.\-]+)", gl_lines[ln - 1])
                    if mm:
                        label = mm.group(1)
                        break
            except Exception:
                pass
        if label is None:
            label = re.sub(r"[^a-z0-9]+", "_", msg.lower()).strip("_")[:40]
            if fail_span is not None and fail_span.get("text"):
                txt = fail_span["text"][0]["text"].strip()
                label += ":" + re.sub(r"\s+", " ", txt)[:60]
        if owner is None:
            fatal_msgs.append("obligation failure outside any unit: " + (d.get("rendered") or msg))
            continue
        gl = fail_span["line_start"] if fail_span else owner.gen_start
        f = Failure(owner.name, label, msg, gl, d.get("rendered") or msg, owner.tags, owner.src_file, owner.src_line)
        res.failures.append(f)
    if summary is None:
        res.fatal = "verus produced no JSON summary (rc=%s): %s" % (p.returncode, (p.stderr or "")[-2000:])
        return res
    vr = summary.get("verification-results", {})
    res.verified = vr.get("verified", 0)
    res.errors = vr.get("errors", 0)
    try:
        for m in summary["times-ms"]["smt"]["smt-run-module-times"]:
            for fb in m.get("function-breakdown", []):
                res.fn_times_ms[fb["function"]] = res.fn_times_ms.get(fb["function"], 0) + fb.get("time-micros", 0) / 1000.0
        res.smt_ms = summary["times-ms"]["smt"]["total"]
    except Exception:
        pass
    if fatal_msgs or vr.get("encountered-vir-error"):
        res.fatal = "verus rejected the generated file (unsupported construct / type error):\n" + "\n".join(fatal_msgs)[:6000]
        return res
    if not vr:
        res.fatal = "no verification results"
        return res
    if res.verified + res.errors == 0:
        res.fatal = "zero obligations generated"
        return res
    res.ok = vr.get("success", False) and not res.failures and not res.undecided
    return res


if __name__ == "__main__":
    import argparse

    ap = argparse.ArgumentParser()
    ap.add_argument("--repo", default="/repo")
    ap.add_argument("--tpl", default=os.path.join(os.path.dirname(__file__), "..", "contracts", "main.rs.tpl"))
    ap.add_argument("--out", default=os.path.join(os.path.dirname(__file__), "..", "out", "dev"))
    ap.add_argument("--canary", action="store_true")
    ap.add_argument("--cfg", action="append", default=[])
    a = ap.parse_args()
    r = run(a.repo, a.tpl, a.out, a.cfg, canary=a.canary)
    print("fatal:", r.fatal)
    print("verified", r.verified, "errors", r.errors, "wall %.1fs smt %.0fms" % (r.wall_s, r.smt_ms))
    for f in r.failures:
        print("FAIL", f.obligation, "|", f.message, "| gen line", f.gen_line)
    for u in r.undecided:
        print("RLIMIT", u)
    if r.fatal:
        print(r.fatal)
