#!/usr/bin/env python3
"""Writes /verif/MANIFEST.json from engine/props.py (single source of truth for claims)."""
import json, os, sys
HERE = os.path.dirname(os.path.abspath(__file__))
sys.path.insert(0, HERE)
import props

ROOT = os.path.dirname(HERE)
checks = []
for pid in sorted(props.PROPS):
    P = props.PROPS[pid]
    checks.append({
        "property_id": pid,
        "quick_cmd": "./check %s quick" % pid,
        "thorough_cmd": "./check %s thorough" % pid,
        "evidence_file": "/verif/evidence/%s.json" % pid,
        "replay_cmd_template": "./check --replay {path}",
        "engine": "contracts",
        "level_claimed": {"category": P["level"], "text": P["claim"], "design_ref": "DESIGN.md section 6 (%s)" % pid},
        "level_note": P["note"],
        "technique": P["technique"],
    })
na = [{"property_id": k, "reason": v} for k, v in sorted(props.NOT_APPLICABLE.items()) if k not in props.PROPS]
m = {
    "version": 1,
    "setup_cmd": "./setup.sh",
    "hooks": {
        "guard": "cfg(kani) (set only by the Kani compiler) / --cfg pacak_bpaf_verif",
        "enable": "cargo kani sets cfg(kani); the replay finder builds with RUSTFLAGS='--cfg pacak_bpaf_verif'; the Verus tier reads source text and needs no hook",
        "baseline_off_cmd": "cd /repo && cargo nextest run --workspace --no-fail-fast --tool-config-file pb:/w/lib/nextest.toml --profile pb --test-threads 8 --offline || cargo test --workspace --no-fail-fast --offline",
        "source_commits": props.HOOK_COMMITS,
        "add_only": True,
    },
    "engines": [{
        "name": "contracts", "path": "/verif/check",
        "serves_properties": sorted(props.PROPS),
        "kind_free_text": "contract-based deductive verification: real bpaf function bodies extracted mechanically on every run into a Verus file with spliced requires/ensures/invariants (proved tier); Kani/CBMC harnesses on the real compiled crate as bounded stand-ins",
    }],
    "checks": checks,
    "not_applicable": na,
    "notes": "See DESIGN.md. exit 2 of a check means 'cannot decide' (anchor lost / unsupported construct / rlimit), never a violation.",
}
json.dump(m, open(os.path.join(ROOT, "MANIFEST.json"), "w"), indent=1)
print("wrote MANIFEST.json: %d checks, %d not_applicable" % (len(checks), len(na)))
