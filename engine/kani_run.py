"""Bounded stand-ins: Kani harnesses compiled into the real crate (see DESIGN.md 3.4)."""
UNITS = []


def run_units(repo, units, work, tier):
    return []


def replay(repo, rp, work):
    print("no kani units yet")
    return 2
