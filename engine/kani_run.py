"""Bounded stand-ins: Kani harnesses compiled into the real crate through the cfg(kani) include hooks (DESIGN.md 3.4).

Every unit states its bound; results are reported under `bounded_checks`, never as discharged proof obligations.
"""
import os
import re
import resource
import shutil
import subprocess
import time

HERE = os.path.dirname(os.path.abspath(__file__))
VERIF = os.path.dirname(HERE)

# Dropped after measurement (harness files keep them for reference, they are not registered):
#   K02 disambiguate_short (32 GB), K04 State::construct (15 GB / >20 min), K08 roff escape (30 min cap even with concrete
#   inputs). K04 was retried with 8 / 2 concrete-ish command lines and K12's retry-path scenario with unwind 24 (State swap is a
#   16-iteration byte loop): CBMC aborted at the 14 GB limit in all three. K12 itself became feasible once the harness stopped
#   calling Info::default() (Doc::from(&str) string processing) and builds an Info without any text.
#   K13 Meta::peek_front_ty on an And/Or group of 3 and then 2 hand-built children: CBMC aborted at 14 GB after 24 / 7 min
#   (kani/dropped_k13_meta_help.rs.txt; its cfg(kani) hook in src/meta_help.rs was removed again). K02, K04 and K08 are
#   superseded by Verus proofs of disambiguate_short, State::construct and escape.
# harness name -> unit description
UNITS = [
    # K01: helpers used by the Verus tier through assumed contracts
    dict(unit="K01.set_scope", harness="k01_set_scope", tags=["C05", "C19"], quick=True, complete=False,
         bound="3 items, every ledger (Unparsed/Conflict/Parsed)^3, every scope and every new scope"),
    dict(unit="K01.adjacently_available_from", harness="k01_adjacently_available_from", tags=["C19", "C07"], quick=True, complete=False,
         bound="3 items, every ledger, every scope, every start"),
    dict(unit="K01.adjacent_scope", harness="k01_adjacent_scope", tags=["C19"], quick=True, complete=False,
         bound="2 states of 3 items, every pair of ledgers and scopes"),
    dict(unit="K01.pick_winner", harness="k01_pick_winner", tags=["C07", "C03"], quick=True, complete=False,
         bound="2 states of 3 items, every pair of ledgers"),
    dict(unit="K01.save_conflicts", harness="k01_save_conflicts", tags=["C07", "C05"], quick=True, complete=False,
         bound="2 states of 3 items, every pair of ledgers, every winner index"),
    # K03: tokenizer
    dict(unit="K03.split_ascii_len2", harness="k03_split_ascii_len2", tags=["C02"], quick=True, complete=False,
         bound="all ASCII strings of length 2"),
    dict(unit="K03.split_ascii_len3", harness="k03_split_ascii_len3", tags=["C02"], quick=False, complete=False,
         bound="all ASCII strings of length 3"),
    dict(unit="K03.split_nonascii_short_eq_value", harness="k03_split_nonascii_short_eq_value", tags=["C02"], quick=True, complete=False,
         bound="`-ñ=v`, v any single byte"),
    dict(unit="K03.split_4byte_short_eq_value", harness="k03_split_4byte_short_eq_value", tags=["C02"], quick=True, complete=False,
         bound="`-🦀=v` (4-byte name, lead byte 0xF0), v any single byte"),
    dict(unit="K03.split_nonascii_long_eq_value", harness="k03_split_nonascii_long_eq_value", tags=["C02"], quick=True, complete=False,
         bound="`--ñ=v`, v any single byte"),
    dict(unit="K03.split_short_attached_value_with_eq", harness="k03_split_short_attached_value_with_eq", tags=["C02"], quick=False, complete=False,
         bound="`-cw=v`, c ASCII alphanumeric, w ASCII, v any byte"),
    dict(unit="K05.shell_quote_ascii2", harness="k05_shell_quote_ascii2", tags=["C15"], quick=True, complete=False,
         features="autocomplete", bound="all ASCII strings of length 2"),
    dict(unit="K05.shell_quote_ascii3", harness="k05_shell_quote_ascii3", tags=["C15"], quick=False, complete=False,
         features="autocomplete", bound="all ASCII strings of length 3"),
    dict(unit="K10.flag_line_beats_env", harness="k10_flag_line_beats_env", tags=["C18"], quick=True, complete=False, stubbing=True,
         bound="2 items from {-a, -b, word} with every ledger; std::env::var_os nondeterministic; flag with and without an absent value"),
    dict(unit="K10.argument_line_beats_env", harness="k10_argument_line_beats_env", tags=["C18", "C02", "C06"], quick=True, complete=False, stubbing=True,
         bound="2 items from {-a, -b, word} with every ledger; std::env::var_os nondeterministic"),
    dict(unit="K12.command_scope_is_name_to_end", harness="k12_command_scope_is_name_to_end", tags=["C08", "C05"], quick=True, complete=False,
         bound="command name followed by 2 items, every ledger of those 2; inner parser = a probe that records its scope and claims everything"),
    dict(unit="K12.adjacent_command_scope", harness="k12_adjacent_command_scope", tags=["C19", "C08", "C05"], quick=False, complete=False,
         bound="adjacent command name followed by 2 items, every ledger of those 2; success on the first attempt only"),
    dict(unit="K14.first_line_two_tokens", harness="k14_first_line_two_tokens", tags=["C12", "C04"], quick=False, complete=False,
         bound="two Text tokens over 2+2 ASCII bytes"),
    dict(unit="K14.first_line_three_tokens", harness="k14_first_line_three_tokens", tags=["C12", "C04"], quick=False, complete=False,
         bound="three Text tokens of one ASCII byte each"),
    # K08 / K09: documentation leaves
    dict(unit="K09.change_style_all_pairs", harness="k09_change_style_all_pairs", tags=["C16"], quick=True, complete=True,
         features="docgen", bound="all 8 x 8 style pairs (loop free, full domain)"),
]


def _limits():
    # address-space cap per process tree member (CBMC): 14 GB, so that 4 workers fit the machine
    try:
        resource.setrlimit(resource.RLIMIT_AS, (14 << 30, 14 << 30))
    except Exception:
        pass
    os.setsid()


def _run_one(repo, u, target, work, timeout_s):
    """one `cargo kani --harness h` invocation; the whole output belongs to this harness"""
    import signal
    feat = u.get("features", "")
    cmd = ["cargo", "kani", "--target-dir", target, "--output-format=terse", "--harness", u["harness"]]
    if feat:
        cmd += ["--features", feat]
    if u.get("stubbing"):
        cmd += ["-Z", "stubbing"]
    env = dict(os.environ, PACAK_BPAF_VERIF_DIR=VERIF, CARGO_NET_OFFLINE="true")
    env.pop("RUSTFLAGS", None)
    t0 = time.time()
    r = dict(unit=u["unit"], harness=u["harness"], bound=u["bound"], complete=u.get("complete", False), cmd=" ".join(cmd))
    p = subprocess.Popen(cmd, cwd=repo, stdout=subprocess.PIPE, stderr=subprocess.STDOUT, text=True, env=env, preexec_fn=_limits)
    try:
        out, _ = p.communicate(timeout=timeout_s)
        timed_out = False
    except subprocess.TimeoutExpired:
        try:
            os.killpg(p.pid, signal.SIGKILL)
        except Exception:
            pass
        out, _ = p.communicate()
        timed_out = True
    r["wall_s"] = round(time.time() - t0, 1)
    with open(os.path.join(work, "kani_%s.log" % u["harness"]), "w") as f:
        f.write(" ".join(cmd) + "\n" + out)
    if timed_out:
        r.update(status="undecided", why="timeout after %ds (bound too expensive for CBMC here)" % timeout_s)
        return r
    if "error: could not compile" in out or "Failed to execute cargo" in out:
        r.update(status="undecided", why="the crate does not compile under cfg(kani): " + _first_error(out))
        return r
    m = re.search(r"Verification Time: ([0-9.]+)s", out)
    if m:
        r["solver_s"] = float(m.group(1))
    m = re.search(r"\*\* (\d+) of (\d+) failed", out)
    if m:
        r["checks"] = int(m.group(2))
    cov = re.search(r"\*\* (\d+) of (\d+) cover properties satisfied", out)
    if "VERIFICATION:- SUCCESSFUL" in out:
        if cov and int(cov.group(1)) < int(cov.group(2)):
            r.update(status="undecided", why="vacuity: a cover! property is unsatisfiable")
        else:
            r.update(status="pass")
    elif "CBMC failed with status" in out or "CBMC timed out" in out:
        r.update(status="undecided", why="CBMC aborted (memory limit / internal error): " + "; ".join(re.findall(r"CBMC .*", out))[:200])
    elif "VERIFICATION:- FAILED" in out:
        fc = [x for x in re.findall(r"Failed Checks: (.*)", out)]
        real = [x for x in fc if "unwinding assertion" not in x]
        # a construct Kani cannot model (foreign function, inline asm, ...) is a tool limit, not a refutation
        unsupported = [x for x in real if "is not currently supported" in x or "not supported by Kani" in x]
        real = [x for x in real if x not in unsupported]
        if unsupported and not real:
            r.update(status="undecided", why="the code under test uses a construct Kani does not model: " + unsupported[0][:200])
        elif fc and not real:
            r.update(status="undecided", why="unwinding bound too small: " + fc[0])
        elif re.search(r"out of memory|std::bad_alloc|Killed", out) and not real:
            r.update(status="undecided", why="out of memory")
        elif not real:
            # FAILED without a single failed check: CBMC gave up (memory / internal limit); never a refutation
            r.update(status="undecided", why="verification did not complete and reported no failed check: " + "; ".join(re.findall(r"CBMC[^\n]*", out))[:200])
        else:
            r.update(status="fail", failed_check=_slug(real[0]) if real else "assertion", output_tail=out[-3000:])
            # concrete playback (second pass)
            pcmd = ["cargo", "kani", "--target-dir", target, "--output-format=terse", "-Z", "concrete-playback",
                    "--concrete-playback=print", "--harness", u["harness"]] + (["--features", feat] if feat else []) + (["-Z", "stubbing"] if u.get("stubbing") else [])
            try:
                pp = subprocess.run(pcmd, cwd=repo, capture_output=True, text=True, env=env, timeout=timeout_s)
                blocks = re.findall(r"```\s*\n(.*?)```", pp.stdout + pp.stderr, re.S)
                blocks = [b for b in blocks if "Check for `cover`" not in b] or blocks
                mm = re.match(r"(.*)", blocks[0], re.S) if blocks else None
                if mm:
                    r["playback"] = mm.group(1)
                    vals = re.findall(r"//\s*(.+?)\s*\n\s*vec!\[([^\]]*)\]", mm.group(1))
                    r["concrete_input"] = [{"value": a.strip(), "bytes": b.strip()} for a, b in vals]
            except subprocess.TimeoutExpired:
                pass
    else:
        r.update(status="undecided", why="harness did not finish (rc=%s): %s" % (p.returncode, out[-300:]))
    return r


def run_units(repo, units, work, tier, jobs=4, timeout_s=None):
    """Runs every harness in its own `cargo kani` process, `jobs` at a time, each worker with its own target dir."""
    from concurrent.futures import ThreadPoolExecutor
    import queue
    os.makedirs(work, exist_ok=True)
    timeout_s = timeout_s or (600 if tier == "quick" else 1800)
    base = os.environ.get("VERIF_KANI_TARGET", os.path.join(VERIF, "out", "kani-target"))
    q = queue.Queue()
    for i in range(jobs):
        q.put(i)

    def job(u):
        i = q.get()
        try:
            return _run_one(repo, u, "%s-%d" % (base, i), work, timeout_s)
        finally:
            q.put(i)

    # group by feature set so that a worker's target dir is not rebuilt back and forth more than necessary
    units = sorted(units, key=lambda u: u.get("features", ""))
    with ThreadPoolExecutor(max_workers=jobs) as ex:
        return list(ex.map(job, units))


def _block(out, harness):
    m = re.search(r"Checking harness \S*::%s\.\.\.(.*?)(?=Checking harness |Manual Harness Summary|\Z)" % re.escape(harness), out, re.S)
    return m.group(1) if m else None


def _first_error(out):
    m = re.search(r"(error(\[E\d+\])?: .*(\n.*){0,6})", out)
    return m.group(1)[:600] if m else out[-600:]


def _slug(s):
    return re.sub(r"[^A-Za-z0-9]+", "_", s).strip("_")[:60]


MODULE_OF = {"k01": "args_inner", "k02": "args", "k03": "arg", "k04": "args", "k05": "complete_shell", "k08": "escape",
             "k09": "html", "k10": "params", "k12": "params", "k14": "buffer"}


def replay(repo, rp, work):
    """Re-run the harness named in a replay file on the current tree; when the file carries Kani's concrete playback test,
    execute that test natively against the real crate (`cargo kani playback`): the recorded inputs drive the real function."""
    us = [u for u in UNITS if u["harness"] == rp.get("harness")]
    if not us:
        print("unknown harness", rp.get("harness"))
        return 2
    u = us[0]
    rc_native = None
    test = rp.get("concrete_playback_test")
    if test:
        m = re.search(r"fn (kani_concrete_playback_\w+)", test)
        mod = MODULE_OF.get(u["harness"][:3])
        if m and mod:
            tmp = os.path.join(work, "playback")
            shutil.rmtree(tmp, ignore_errors=True)
            shutil.copytree(os.path.join(VERIF, "kani"), os.path.join(tmp, "kani"))
            with open(os.path.join(tmp, "kani", mod + ".rs"), "a") as f:
                f.write("\n// concrete playback test produced by Kani for a failing run\n" + test + "\n")
            env = dict(os.environ, PACAK_BPAF_VERIF_DIR=tmp, CARGO_NET_OFFLINE="true", CARGO_TARGET_DIR=os.path.join(VERIF, "out", "kani-target-playback"))
            env.pop("RUSTFLAGS", None)
            cmd = ["cargo", "kani", "playback", "-Z", "concrete-playback"] + (["--features", u["features"]] if u.get("features") else []) + ["--", m.group(1)]
            print("replaying the recorded inputs natively: " + " ".join(cmd))
            p = subprocess.run(cmd, cwd=repo, capture_output=True, text=True, env=env)
            full = p.stdout + p.stderr
            tail = "\n".join(l for l in full.split("\n") if re.search(r"^test |test result|panicked at|assertion|running \d+ test", l))[-1500:]
            print(tail)
            rc_native = p.returncode
            if "test result: FAILED" in full or "panicked at" in full:
                print("native replay of the concrete input: the harness assertion FAILS on the real code")
            elif "test result: ok" in full:
                print("native replay of the concrete input: passes (stubbed environment is not applied in playback)")
            else:
                print("native replay could not be executed (rc=%s)" % rc_native)
    res = run_units(repo, us, work, "thorough", jobs=1)
    for r in res:
        print("harness %s on the current tree: %s" % (r["harness"], r["status"]))
        if r["status"] == "fail":
            print(r.get("output_tail", "")[-1500:])
            return 1
        if r["status"] != "pass":
            return 2
    return 0


if __name__ == "__main__":
    import json
    import sys

    sel = sys.argv[1:]
    us = [u for u in UNITS if not sel or any(s in u["harness"] for s in sel)]
    res = run_units("/repo", us, os.path.join(VERIF, "out", "kani-dev"), "thorough")
    for r in res:
        print("%-45s %-9s wall=%6.1fs solver=%s checks=%s %s" % (r["harness"], r["status"], r["wall_s"], r.get("solver_s"), r.get("checks"), r.get("why", r.get("failed_check", ""))[:200]))
        if r.get("concrete_input"):
            print("    concrete input:", r["concrete_input"])
