// GENERATED from /verif/contracts/*.tpl and /repo/src — do not edit.
#![allow(unused_imports, dead_code, unused_variables, unused_mut, unreachable_patterns, unused_parens)]
#![feature(allocator_api)]
use vstd::prelude::*;
use vstd::std_specs::cmp::*;
use vstd::utf8::*;
use vstd::std_specs::iter::IteratorSpec;
use vstd::string::StringSliceAdditionalSpecFns;
use std::ffi::OsString;
use std::ops::Range;
use std::rc::Rc;
use std::marker::PhantomData;
use std::str::FromStr;

verus! {

// paths the extracted bodies name through `crate::` (T8)
pub mod buffer { pub use crate::real::{Block, Token, Style}; }
pub use crate::real::disambiguate_short;
#[cfg(feature = "autocomplete")]
pub mod complete_run { pub use crate::real::ArgScanner; }

/// completion bookkeeping (src/complete_gen.rs): the real types (the candidate list `comps` is what C14 speaks about)
#[cfg(feature = "autocomplete")]
pub mod complete_gen { pub use crate::real::{Complete, Comp, CompExtra}; }
#[cfg(feature = "autocomplete")]
pub mod complete_shell { pub use crate::real::ShellComp; }

pub mod prelude {
    use super::*;

    #[verifier::external_type_specification]
    #[verifier::external_body]
    pub struct ExOsString(OsString);

    #[verifier::external_type_specification]
    #[verifier::external_body]
    pub struct ExOsStr(std::ffi::OsStr);

    pub assume_specification[ <OsString as std::ops::Deref>::deref ](s: &OsString) -> (r: &std::ffi::OsStr);

    /// A-std-peq: result of `PartialEq::eq` on values of type T (uninterpreted; pinned down for `char` below,
    /// and by vstd's PartialEqSpec for `&str`)
    pub uninterp spec fn peq<T>(a: T, b: T) -> bool;

    #[verifier::external_body]
    pub broadcast proof fn axiom_peq_char(a: char, b: char)
        ensures #[trigger] peq(a, b) == (a == b),
    {}

    pub assume_specification<T: PartialEq>[ <[T]>::contains ](s: &[T], x: &T) -> (b: bool)
        ensures
            <T as PartialEqSpec>::obeys_eq_spec() ==> b == (exists|i: int| 0 <= i < s@.len() && (#[trigger] s@[i]).eq_spec(x)),
            b == (exists|i: int| 0 <= i < s@.len() && peq(#[trigger] s@[i], *x));

    pub assume_specification<Idx: Clone>[ <Range<Idx> as Clone>::clone ](r: &Range<Idx>) -> (c: Range<Idx>)
        ensures
            call_ensures(Idx::clone, (&r.start,), c.start),
            call_ensures(Idx::clone, (&r.end,), c.end);

    pub assume_specification[ <OsString as Clone>::clone ](s: &OsString) -> (c: OsString)
        ensures c == *s;

    /// A-std-oseq: result of `OsString == str` (vstd's uninterpreted PartialEqSpec relation for that impl)
    pub open spec fn os_eq_str(a: OsString, b: &str) -> bool { PartialEqSpec::<str>::eq_spec(&a, b) }

    /// A-std-oseq: `OsString == str` is a deterministic function of its two arguments
    #[verifier::external_body]
    pub proof fn axiom_os_eq_obeys()
        ensures <OsString as PartialEqSpec<str>>::obeys_eq_spec(),
    {}

    pub assume_specification<T: ?Sized, A: std::alloc::Allocator>[ <Box<T, A> as AsRef<T>>::as_ref ](b: &Box<T, A>) -> (r: &T)
        ensures r == &**b;

    /// A-std-extend: the elements an `IntoIterator` yields (uninterpreted; pinned down for `&Vec<T>` below)
    pub uninterp spec fn iter_elems<T, I>(it: I) -> Seq<T>;

    pub assume_specification<'a, T: Copy + 'a, A: std::alloc::Allocator, I: IntoIterator<Item = &'a T>>[ <Vec<T, A> as Extend<&'a T>>::extend::<I> ](v: &mut Vec<T, A>, iter: I)
        ensures final(v)@ == old(v)@ + iter_elems::<T, I>(iter);

    #[verifier::external_body]
    pub broadcast proof fn axiom_iter_elems_vec_ref<T>(v: &Vec<T>)
        ensures #[trigger] iter_elems::<T, &Vec<T>>(v) == v@,
    {}

    #[verifier::external_trait_specification]
    pub trait ExFromStr: Sized {
        type ExternalTraitSpecificationFor: std::str::FromStr;
        type Err;
        fn from_str(s: &str) -> Result<Self, Self::Err>;
    }

    #[verifier::external_trait_specification]
    pub trait ExToString {
        type ExternalTraitSpecificationFor: std::string::ToString;
        fn to_string(&self) -> String;
    }

    /// bpaf::Doc (src/buffer.rs): opaque, no unit reads its contents (T8)
    #[verifier::external_body]
    pub struct Doc { _opaque: () }

    impl Clone for Doc {
        #[verifier::external_body]
        fn clone(&self) -> (r: Self)
            ensures r == *self
        { unimplemented!() }
    }

    /// T8b: stand-in for `Box<dyn ExactSizeIterator<Item = OsString> + 'a>` (the raw argument source of `Args`); Verus cannot
    /// read `dyn` types with super-traits. The stand-in is an opaque value with one assumed operation: `next` pops the head of
    /// the (ghost) sequence of arguments still to come.
    #[verifier::external_body]
    pub struct ArgsItems<'a> { _opaque: std::marker::PhantomData<&'a ()> }
    impl<'a> ArgsItems<'a> {
        pub uninterp spec fn rest(&self) -> Seq<OsString>;
        #[verifier::external_body]
        pub fn next(&mut self) -> (r: Option<OsString>)
            ensures
                old(self).rest().len() == 0 ==> r is None && final(self).rest() == old(self).rest(),
                old(self).rest().len() > 0 ==> r == Some(old(self).rest()[0]) && final(self).rest() == old(self).rest().subrange(1, old(self).rest().len() as int),
        { unimplemented!() }
    }

    // ---- A-std-path: the process argument vector and `std::path` (used by `Args::current_args` only). Each std operation is an
    // uninterpreted function of its arguments; `file_name` and `file_stem` are *different* functions, nothing else is assumed.
    #[verifier::external_type_specification]
    #[verifier::external_body]
    pub struct ExArgsOs(std::env::ArgsOs);
    #[verifier::external_type_specification]
    #[verifier::external_body]
    pub struct ExPathBuf(std::path::PathBuf);
    #[verifier::external_type_specification]
    #[verifier::external_body]
    pub struct ExPath(std::path::Path);

    /// argv of the running process as the OS hands it over
    pub uninterp spec fn process_argv() -> Seq<OsString>;
    pub uninterp spec fn path_of(n: OsString) -> std::path::PathBuf;
    pub uninterp spec fn pathbuf_deref(p: &std::path::PathBuf) -> &std::path::Path;
    pub uninterp spec fn path_file_name(p: &std::path::Path) -> Option<&std::ffi::OsStr>;
    pub uninterp spec fn path_file_stem(p: &std::path::Path) -> Option<&std::ffi::OsStr>;
    pub uninterp spec fn path_extension(p: &std::path::Path) -> Option<&std::ffi::OsStr>;
    pub uninterp spec fn os_str_to_str(o: &std::ffi::OsStr) -> Option<&str>;

    pub assume_specification[ std::env::args_os ]() -> (r: std::env::ArgsOs)
        ensures r.obeys_prophetic_iter_laws(), r.remaining() == process_argv();
    pub assume_specification[ <std::path::PathBuf as From<OsString>>::from ](n: OsString) -> (r: std::path::PathBuf)
        ensures r == path_of(n);
    pub assume_specification[ <std::path::PathBuf as std::ops::Deref>::deref ](p: &std::path::PathBuf) -> (r: &std::path::Path)
        ensures r == pathbuf_deref(p);
    pub assume_specification[ std::path::Path::file_name ](p: &std::path::Path) -> (r: Option<&std::ffi::OsStr>)
        ensures r == path_file_name(p);
    pub assume_specification[ std::path::Path::file_stem ](p: &std::path::Path) -> (r: Option<&std::ffi::OsStr>)
        ensures r == path_file_stem(p);
    pub assume_specification[ std::path::Path::extension ](p: &std::path::Path) -> (r: Option<&std::ffi::OsStr>)
        ensures r == path_extension(p);
    pub assume_specification[ std::ffi::OsStr::to_str ](o: &std::ffi::OsStr) -> (r: Option<&str>)
        ensures r == os_str_to_str(o);

    /// C11 "the program name is taken from argv[0]": the file name (last path component, extension included) of argv[0] when
    /// it is valid UTF-8; no name otherwise
    pub open spec fn program_name(argv: Seq<OsString>) -> Option<Seq<char>> {
        if argv.len() == 0 { None } else {
            match path_file_name(pathbuf_deref(&path_of(argv[0]))) {
                None => None,
                Some(f) => match os_str_to_str(f) { None => None, Some(s) => Some(s@) },
            }
        }
    }

    impl<'a> ArgsItems<'a> {
        /// T8c: the implicit unsizing coercion `Box<I>` -> `Box<dyn ExactSizeIterator<Item = OsString>>` made explicit for the
        /// stand-in of T8b: the boxed iterator yields what the concrete one would have
        #[verifier::external_body]
        pub fn unsize<I: Iterator<Item = OsString>>(b: Box<I>) -> (r: ArgsItems<'a>)
            ensures r.rest() == (*b).remaining(),
        { unimplemented!() }
    }

    pub assume_specification<T, A: std::alloc::Allocator>[ <Rc<[T], A> as From<Vec<T, A>>>::from ](v: Vec<T, A>) -> (r: Rc<[T], A>)
        ensures r@ == v@;

    pub assume_specification<T: std::ops::Deref>[ Option::<T>::as_deref ](o: &Option<T>) -> (r: Option<&<T as std::ops::Deref>::Target>)
        ensures r is Some == o is Some;

    /// A-alloc: a Vec of a non-zero-sized element type cannot hold usize::MAX elements (allocations are bounded by isize::MAX bytes)
    #[verifier::external_body]
    pub proof fn axiom_arg_vec_len(v: Vec<super::real::Arg>)
        ensures v.len() < usize::MAX,
    {}

    /// T5-style shim for `Iterator::enumerate` on the stand-in (std semantics assumed: pairs every element with its index)
    pub struct ArgsItemsEnum<'a> { pub it: ArgsItems<'a>, pub ix: usize }
    impl<'a> ArgsItems<'a> {
        #[verifier::external_body]
        pub fn enumerate(self) -> (r: ArgsItemsEnum<'a>)
            ensures r.it == self, r.ix == 0,
        { unimplemented!() }
    }
    impl<'a> ArgsItemsEnum<'a> {
        pub open spec fn rest(&self) -> Seq<OsString> { self.it.rest() }
        #[verifier::external_body]
        pub fn next(&mut self) -> (r: Option<(usize, OsString)>)
            ensures
                old(self).it.rest().len() == 0 ==> r is None && *final(self) == *old(self),
                old(self).it.rest().len() > 0 ==> r == Some((old(self).ix, old(self).it.rest()[0])) && final(self).ix == old(self).ix + 1
                    && final(self).it.rest() == old(self).it.rest().subrange(1, old(self).it.rest().len() as int),
        { unimplemented!() }
    }

    /// A-std-oseq: `OsString == &str` is a deterministic function of its arguments
    #[verifier::external_body]
    pub proof fn axiom_os_eq_ref_obeys()
        ensures <OsString as PartialEqSpec<&'static str>>::obeys_eq_spec(),
    {}
    /// the raw argument is the literal `--`
    pub open spec fn is_dd(os: OsString) -> bool { PartialEqSpec::<&'static str>::eq_spec(&os, &"--") }

    // ---- UTF-8 byte offsets of a `String` (vstd::utf8 is the model of the encoding; used by disambiguate_short)
    #[verifier::external_type_specification]
    #[verifier::external_body]
    pub struct ExCharIndices<'a>(std::str::CharIndices<'a>);

    /// byte offset of the k-th char of `s` in its UTF-8 encoding
    #[verifier::opaque]
    pub open spec fn boff(s: Seq<char>, k: int) -> int { encode_utf8(s.take(k)).len() as int }

    /// A-std-charindices: abstract state of a `CharIndices` iterator: the string's chars and the index of the next one
    pub uninterp spec fn ci_seq(it: std::str::CharIndices<'_>) -> Seq<char>;
    pub uninterp spec fn ci_pos(it: std::str::CharIndices<'_>) -> int;

    pub assume_specification [str::char_indices] (s: &str) -> (r: std::str::CharIndices<'_>)
        ensures ci_seq(r) == s@, ci_pos(r) == 0;

    pub assume_specification<'a> [<std::str::CharIndices<'a> as Iterator>::next] (it: &mut std::str::CharIndices<'a>) -> (r: Option<(usize, char)>)
        ensures
            ci_seq(*final(it)) == ci_seq(*old(it)),
            0 <= ci_pos(*old(it)) <= ci_seq(*old(it)).len(),
            match r {
                Some((ix, c)) => ci_pos(*old(it)) < ci_seq(*old(it)).len() && ci_pos(*final(it)) == ci_pos(*old(it)) + 1
                    && ix == boff(ci_seq(*old(it)), ci_pos(*old(it))) && c == ci_seq(*old(it))[ci_pos(*old(it))],
                None => ci_pos(*old(it)) == ci_seq(*old(it)).len() && ci_pos(*final(it)) == ci_pos(*old(it)),
            };

    pub assume_specification<T: std::default::Default> [std::mem::take] (dest: &mut T) -> (r: T)
        ensures r == *old(dest);

    /// A-std-string: the encoded length of a `String` fits `usize`
    #[verifier::external_body]
    pub proof fn axiom_string_bytes_fit(s: &String)
        ensures encode_utf8(s@).len() <= usize::MAX,
    {}

    /// A-std-string: `String::len` is the length of the UTF-8 encoding in bytes
    pub assume_specification [std::string::String::len] (s: &String) -> (r: usize)
        ensures r == encode_utf8(s@).len();

    /// A-std-string: `String: Index<I>` is `str: Index<I>` on `as_str()` (library/alloc/src/string.rs)
    pub uninterp spec fn string_as_str(s: &String) -> &str;
    #[verifier::external_body]
    pub broadcast proof fn axiom_string_as_str(s: &String)
        ensures (#[trigger] string_as_str(s))@ == s@,
    {}
    #[verifier::external_body]
    pub broadcast proof fn axiom_string_index_req<I: std::slice::SliceIndex<str>>(s: &String, i: &I)
        ensures #[trigger] vstd::std_specs::core::IndexSpec::index_req(s, i) == vstd::slice::SliceIndexSpec::in_bounds(i, string_as_str(s)),
    {}
    pub assume_specification<I: std::slice::SliceIndex<str>>[ <String as std::ops::Index<I>>::index ](s: &String, i: I) -> (r: &I::Output)
        ensures vstd::slice::SliceIndexSpec::index_postcondition(&i, string_as_str(s), r);

    /// A-std-osfrom: `OsString::from(&str)` is a function of the chars
    pub uninterp spec fn os_of_chars(s: Seq<char>) -> OsString;
    pub uninterp spec fn os_from<T: ?Sized>(s: &T) -> OsString;
    #[verifier::external_body]
    pub broadcast proof fn axiom_os_from_str(s: &str)
        ensures #[trigger] os_from::<str>(s) == os_of_chars(s@),
    {}
    #[verifier::allow(undeclared_external_trait)]
    pub assume_specification<'a, T: ?Sized + AsRef<std::ffi::OsStr>>[ <OsString as From<&'a T>>::from ](s: &T) -> (r: OsString)
        ensures r == os_from::<T>(s);

    // ---- the process environment (C18): a fixed external input of a run
    pub uninterp spec fn env_var(k: &'static str) -> Option<OsString>;
    /// A-std-env: what `std::env::var_os(k)` returns (uninterpreted per key type; pinned down for `&&'static str` below)
    pub uninterp spec fn env_lookup<K>(k: K) -> Option<OsString>;
    #[verifier::external_body]
    pub broadcast proof fn axiom_env_lookup_str(k: &&'static str)
        ensures #[trigger] env_lookup::<&&'static str>(k) == env_var(*k),
    {}
    #[verifier::allow(undeclared_external_trait)]
    pub assume_specification<K: AsRef<std::ffi::OsStr>> [std::env::var_os::<K>] (k: K) -> (r: Option<OsString>)
        ensures r == env_lookup::<K>(k);

    /// `f` gives `None` on element j / its first `Some` on element i
    pub open spec fn fm_miss<T, B, F: FnMut(T) -> Option<B>>(f: F, rem: Seq<T>, j: int) -> bool { call_ensures(f, (rem[j],), None::<B>) }
    pub open spec fn fm_hit<T, B, F: FnMut(T) -> Option<B>>(f: F, rem: Seq<T>, i: int, b: B) -> bool {
        0 <= i < rem.len() && call_ensures(f, (rem[i],), Some(b)) && forall|j: int| 0 <= j < i ==> #[trigger] fm_miss(f, rem, j)
    }
    pub open spec fn fm_none<T, B, F: FnMut(T) -> Option<B>>(f: F, rem: Seq<T>) -> bool { forall|j: int| 0 <= j < rem.len() ==> #[trigger] fm_miss(f, rem, j) }
    /// A-std-findmap: `slice::Iter::find_map(f)` returns the first `Some` that `f` gives on the remaining elements, in order
    pub assume_specification<'a, T, B, F: FnMut(&'a T) -> Option<B>> [<std::slice::Iter<'a, T> as std::iter::Iterator>::find_map] (it: &mut std::slice::Iter<'a, T>, f: F) -> (r: Option<B>)
        where std::slice::Iter<'a, T>: Sized
        ensures
            r matches Some(b) ==> exists|i: int| #[trigger] fm_hit(f, old(it).remaining(), i, b),
            r is None ==> fm_none(f, old(it).remaining());

    pub assume_specification<T, U, F: FnOnce(T) -> U> [Option::<T>::map_or] (o: Option<T>, default: U, f: F) -> (r: U)
        requires o matches Some(x) ==> call_requires(f, (x,)),
        ensures match o { Some(x) => call_ensures(f, (x,), r), None => r == default };

    pub assume_specification<T: Copy> [Option::<&T>::copied] (o: Option<&T>) -> (r: Option<T>)
        ensures r == (match o { Some(x) => Some(*x), None => None });

    // ---- std::fmt::Formatter as a text sink (C15: Shell quoting)
    /// A-std-fmt: the text written to a formatter so far
    pub uninterp spec fn fmt_out(f: std::fmt::Formatter<'_>) -> Seq<char>;
    pub assume_specification<'a> [<std::fmt::Formatter<'a> as std::fmt::Write>::write_char] (f: &mut std::fmt::Formatter<'a>, c: char) -> (r: Result<(), std::fmt::Error>)
        ensures r is Ok ==> fmt_out(*final(f)) == fmt_out(*old(f)).push(c);
    pub assume_specification<'a> [std::fmt::Formatter::<'a>::write_str] (f: &mut std::fmt::Formatter<'a>, s: &str) -> (r: Result<(), std::fmt::Error>)
        ensures r is Ok ==> fmt_out(*final(f)) == fmt_out(*old(f)) + s@;

    /// bpaf::meta_youmean::Suggestion: opaque (T8)
    #[verifier::external_body]
    pub struct Suggestion { _opaque: () }
}

pub mod spec {
    use super::*;
    use super::prelude::*;
    use super::real::*;

    pub open spec fn present(st: ItemState) -> bool { !(st is Parsed) }

    /// number of present (not yet consumed) ledger entries with index in [lo, hi)
    pub open spec fn count_present(l: Seq<ItemState>, lo: int, hi: int) -> nat
        decreases hi - lo
    {
        if lo >= hi { 0 } else {
            count_present(l, lo, hi - 1) + (if 0 <= hi - 1 < l.len() && present(l[hi - 1]) { 1nat } else { 0nat })
        }
    }

    impl State {
        /// representation invariant of the consumption ledger
        pub open spec fn wf(&self) -> bool {
            &&& self.item_state.len() == self.items.len()
            &&& self.items.len() < usize::MAX
            &&& self.scope.start <= self.scope.end <= self.items.len()
            &&& self.remaining == count_present(self.item_state@, self.scope.start as int, self.scope.end as int)
        }
        /// item i is in scope and not consumed yet
        pub open spec fn avail(&self, i: int) -> bool {
            self.scope.start <= i < self.scope.end && 0 <= i < self.item_state.len() && present(self.item_state[i])
        }
    }

    /// the name list contains the long name (string contents compared)
    pub open spec fn long_contains(longs: Seq<&'static str>, l: String) -> bool {
        exists|i: int| 0 <= i < longs.len() && #[trigger] longs[i]@ == l@
    }

    impl NamedArg {
        /// spec of NamedArg::matches_arg: which tokenised items a name set accepts
        pub open spec fn matches_spec(&self, arg: Arg, adjacent: bool) -> bool {
            match arg {
                Arg::Short(s, is_adj, _) => self.short@.contains(s) && (!adjacent || is_adj),
                Arg::Long(l, is_adj, _) => long_contains(self.long@, l) && (!adjacent || is_adj),
                Arg::ArgWord(_) | Arg::Word(_) | Arg::PosWord(_) => false,
            }
        }
    }

    impl State {
        /// i is the leftmost available item satisfying the matcher
        pub open spec fn first_match(&self, named: NamedArg, adjacent: bool, i: int) -> bool {
            &&& self.avail(i)
            &&& named.matches_spec(self.items[i], adjacent)
            &&& forall|j: int| self.scope.start <= j < i && #[trigger] self.avail(j) ==> !named.matches_spec(self.items[j], adjacent)
        }
        pub open spec fn no_match(&self, named: NamedArg, adjacent: bool) -> bool {
            forall|j: int| #[trigger] self.avail(j) ==> !named.matches_spec(self.items[j], adjacent)
        }
        /// ledger of `self` with index i consumed
        pub open spec fn consumed1(&self, i: int) -> Seq<ItemState> {
            self.item_state@.update(i, ItemState::Parsed)
        }
    }

    /// payload of an item that can serve as the value of a named argument
    pub open spec fn value_word(a: Arg) -> Option<OsString> {
        match a {
            Arg::Word(w) | Arg::ArgWord(w) => Some(w),
            _ => None,
        }
    }
    /// payload of an item a positional parser may take, with its "came after --" flag
    pub open spec fn pos_word(a: Arg) -> Option<(bool, OsString)> {
        match a {
            Arg::Word(w) => Some((false, w)),
            Arg::PosWord(w) => Some((true, w)),
            _ => None,
        }
    }
    /// original text of an item that may be a command name
    pub open spec fn cmd_word(a: Arg) -> Option<OsString> {
        match a {
            Arg::Word(w) | Arg::Short(_, _, w) | Arg::Long(_, false, w) => Some(w),
            _ => None,
        }
    }

    /// item `a` may be the command name `word`: its original text equals it and it is not a `--x=..` form, a value or a word after `--`
    pub open spec fn cmd_matches(a: Arg, word: &str) -> bool {
        match cmd_word(a) {
            Some(w) => os_eq_str(w, word),
            None => false,
        }
    }
    /// `e` is exactly `Missing[Positional{metavar, help: None} at scope.start in scope]`
    pub open spec fn is_missing_positional(e: Error, metavar: Metavar, scope: Range<usize>) -> bool {
        match e.0 {
            Message::Missing(v) => v.len() == 1 && v[0].position == scope.start && v[0].scope == scope
                && (match v[0].item { Item::Positional { metavar: mv, help: h } => mv == metavar && h is None, _ => false }),
            _ => false,
        }
    }
    pub open spec fn is_no_argument(e: Error, k: int, metavar: Metavar) -> bool {
        match e.0 {
            Message::NoArgument(p, m) => p == k && m == metavar,
            _ => false,
        }
    }

    /// error classes, written from the statement of C06/C09: "absent" classes may be defaulted, "present but invalid" are final
    pub open spec fn catchable(m: Message) -> bool {
        m is NoEnv || m is ParseSome || m is ParseFail || m is PureFailed || m is Missing || m is NonStrictPos
    }

    /// what every `eval` guarantees about the state it leaves: the ledger stays well formed, the item list is
    /// the same and consumption is monotone (an item that was consumed never becomes available again)
    pub open spec fn step(pre: State, post: State) -> bool {
        &&& post.wf()
        &&& post.items == pre.items
        &&& forall|i: int| 0 <= i < pre.item_state.len() && !present(#[trigger] pre.item_state[i]) ==> !present(post.item_state[i])
        &&& comp_inert(pre, post)
    }

    /// short names the tokenizer has to know about (C02: clusters `-abc`, attached values `-nvalue`): every flag / argument
    /// item reachable through any wrapper contributes its short names, in tree order (flags, arguments)
    pub open spec fn shorts_of(m: Meta) -> (Seq<char>, Seq<char>)
        decreases m, 1int,
    {
        match m {
            Meta::And(xs) | Meta::Or(xs) => shorts_upto(m, xs.len() as int),
            Meta::Item(i) => match *i {
                Item::Any { .. } | Item::Positional { .. } => (Seq::empty(), Seq::empty()),
                Item::Command { meta, .. } => shorts_of(*meta),
                Item::Flag { shorts, .. } => (shorts@, Seq::empty()),
                Item::Argument { shorts, .. } => (Seq::empty(), shorts@),
            },
            Meta::CustomUsage(x, _) | Meta::Required(x) | Meta::Optional(x) | Meta::Adjacent(x) | Meta::Subsection(x, _) | Meta::Suffix(x, _) | Meta::Many(x) => shorts_of(*x),
            // `strict` exists on positional items only, which have no short names
            Meta::Skip | Meta::Strict(_) => (Seq::empty(), Seq::empty()),
        }
    }
    pub open spec fn meta_children(m: Meta) -> Seq<Meta> {
        match m { Meta::And(xs) | Meta::Or(xs) => xs@, _ => Seq::empty() }
    }
    /// short names of the first n children of an And / Or node
    pub open spec fn shorts_upto(m: Meta, n: int) -> (Seq<char>, Seq<char>)
        decreases m, 0int, n,
        when m is And || m is Or
    {
        let xs = meta_children(m);
        if n <= 0 || n > xs.len() { (Seq::empty(), Seq::empty()) } else {
            let a = shorts_upto(m, n - 1);
            let b = shorts_of(xs[n - 1]);
            (a.0 + b.0, a.1 + b.1)
        }
    }

    /// C12: what `--help` has to list for an item: its (first) name, metavariable, help text, environment variable
    pub open spec fn opt_ref<'a>(o: &'a Option<Doc>) -> Option<&'a Doc> {
        match o { Some(d) => Some(d), None => None }
    }
    #[cfg(not(feature = "docgen"))]
    pub open spec fn help_item_of<'a>(item: &'a Item) -> HelpItem<'a> {
        match item {
            Item::Positional { metavar, help } => HelpItem::Positional { metavar: *metavar, help: opt_ref(help) },
            Item::Command { name, short, help, meta, info } => HelpItem::Command { name: *name, short: *short, help: opt_ref(help), meta: &**meta },
            Item::Flag { name, env, help, shorts } => HelpItem::Flag { name: *name, env: *env, help: opt_ref(help) },
            Item::Argument { name, metavar, env, help, shorts } => HelpItem::Argument { name: *name, metavar: *metavar, env: *env, help: opt_ref(help) },
            Item::Any { metavar, anywhere, help } => HelpItem::Any { metavar: metavar, anywhere: *anywhere, help: opt_ref(help) },
        }
    }
    #[cfg(feature = "docgen")]
    pub open spec fn help_item_of<'a>(item: &'a Item) -> HelpItem<'a> {
        match item {
            Item::Positional { metavar, help } => HelpItem::Positional { metavar: *metavar, help: opt_ref(help) },
            Item::Command { name, short, help, meta, info } => HelpItem::Command { name: *name, short: *short, help: opt_ref(help), meta: &**meta, info: &**info },
            Item::Flag { name, env, help, shorts } => HelpItem::Flag { name: *name, env: *env, help: opt_ref(help) },
            Item::Argument { name, metavar, env, help, shorts } => HelpItem::Argument { name: *name, metavar: *metavar, env: *env, help: opt_ref(help) },
            Item::Any { metavar, anywhere, help } => HelpItem::Any { metavar: metavar, anywhere: *anywhere, help: opt_ref(help) },
        }
    }
    /// a help entry that stands for an item (as opposed to group / block decorations)
    pub open spec fn is_leaf(h: HelpItem) -> bool {
        h is Any || h is Positional || h is Command || h is Flag || h is Argument
    }
    /// the entries of a help item list that stand for items, in order
    pub open spec fn strip(s: Seq<HelpItem>) -> Seq<HelpItem>
        decreases s.len(),
    {
        if s.len() == 0 { Seq::empty() } else { strip(s.drop_last()) + (if is_leaf(s.last()) { seq![s.last()] } else { Seq::empty() }) }
    }
    pub open spec fn helpless_positional(i: Item) -> bool {
        i is Positional && i->Positional_help is None
    }
    /// C12 "lists every item a user can pass ... and lists nothing else": every item of the tree except a positional
    /// without help text, in tree order; `hide` (= Meta::Skip) contributes nothing; usage-only wrappers are transparent
    pub open spec fn leaves<'a>(m: &'a Meta) -> Seq<HelpItem<'a>>
        decreases m, 1int,
    {
        match m {
            Meta::And(xs) | Meta::Or(xs) => leaves_upto(m, xs.len() as int),
            Meta::Adjacent(x) | Meta::Subsection(x, _) | Meta::Suffix(x, _) | Meta::CustomUsage(x, _) | Meta::Required(x) | Meta::Optional(x) | Meta::Many(x) | Meta::Strict(x) => leaves(&**x),
            Meta::Item(i) => if helpless_positional(**i) { Seq::empty() } else { seq![help_item_of(&**i)] },
            Meta::Skip => Seq::empty(),
        }
    }
    pub open spec fn leaves_upto<'a>(m: &'a Meta, n: int) -> Seq<HelpItem<'a>>
        decreases m, 0int, n,
        when *m is And || *m is Or
    {
        let xs = meta_children(*m);
        if n <= 0 || n > xs.len() { Seq::empty() } else { leaves_upto(m, n - 1) + leaves(&xs[n - 1]) }
    }

    /// C09, tokenizer rule: "Everything after the first `--` is positional data ... the separator itself is never delivered as a
    /// value": up to the first `--` nothing is a PosWord and everything is unconsumed; the first PosWord is the literal `--` and is
    /// pre-consumed; every later item is a PosWord and unconsumed
    pub open spec fn dd_rule(items: Seq<Arg>, ledger: Seq<ItemState>) -> bool {
        &&& ledger.len() == items.len()
        &&& forall|j: int| 0 <= j < items.len() && #[trigger] first_posword(items, j) ==> is_dd(items[j]->PosWord_0) && ledger[j] is Parsed
        &&& forall|j: int| 0 <= j < items.len() && !#[trigger] first_posword(items, j) ==> ledger[j] is Unparsed
        &&& forall|i: int, j: int| #![trigger items[i], items[j]] 0 <= i < j < items.len() && items[i] is PosWord ==> items[j] is PosWord
    }
    /// C09/C11 "everything after the separator is handed to the parser as it was written": the items from the separator (item
    /// index m) on are exactly the raw words from the separator (word index mw) on, one positional-only item per word, in order
    pub open spec fn tail_raw(items: Seq<Arg>, m: int, all: Seq<OsString>, mw: int, k: int) -> bool {
        0 <= mw < k <= all.len() && items.len() - m == k - mw
            && forall|j: int| 0 <= j < k - mw ==> #[trigger] items[m + j] == Arg::PosWord(all[mw + j])
    }

    pub open spec fn first_posword(items: Seq<Arg>, j: int) -> bool {
        0 <= j < items.len() && items[j] is PosWord && forall|i: int| 0 <= i < j ==> !(#[trigger] items[i] is PosWord)
    }

    /// C16 "describe every command level reachable through subcommands": the section of a level followed, for every visible command
    /// of that level in order, by the sections of that command (path extended by its name). Paths are compared by their text.
    #[cfg(feature = "docgen")]
    pub open spec fn levels<'a>(meta: &'a Meta, info: &'a Info, path: Seq<Seq<char>>) -> Seq<(Seq<Seq<char>>, &'a Info, &'a Meta)> {
        seq![(path, info, meta)] + levels_in(meta, path)
    }
    #[cfg(feature = "docgen")]
    pub open spec fn levels_in<'a>(m: &'a Meta, path: Seq<Seq<char>>) -> Seq<(Seq<Seq<char>>, &'a Info, &'a Meta)>
        decreases m, 1int,
    {
        match m {
            Meta::And(xs) | Meta::Or(xs) => levels_in_upto(m, xs.len() as int, path),
            Meta::Adjacent(x) | Meta::Subsection(x, _) | Meta::Suffix(x, _) | Meta::CustomUsage(x, _) | Meta::Required(x) | Meta::Optional(x) | Meta::Many(x) | Meta::Strict(x) => levels_in(&**x, path),
            Meta::Item(i) => match &**i {
                Item::Command { name, meta, info, .. } => seq![(path.push(name@), &**info, &**meta)] + levels_in(&**meta, path.push(name@)),
                _ => Seq::empty(),
            },
            Meta::Skip => Seq::empty(),
        }
    }
    #[cfg(feature = "docgen")]
    pub open spec fn levels_in_upto<'a>(m: &'a Meta, n: int, path: Seq<Seq<char>>) -> Seq<(Seq<Seq<char>>, &'a Info, &'a Meta)>
        decreases m, 0int, n,
        when *m is And || *m is Or
    {
        let xs = meta_children(*m);
        if n <= 0 || n > xs.len() { Seq::empty() } else { levels_in_upto(m, n - 1, path) + levels_in(&xs[n - 1], path) }
    }
    /// sections contributed by one help entry (only command entries contribute)
    #[cfg(feature = "docgen")]
    pub open spec fn entry_levels<'a>(h: HelpItem<'a>, path: Seq<Seq<char>>) -> Seq<(Seq<Seq<char>>, &'a Info, &'a Meta)> {
        match h {
            HelpItem::Command { name, meta, info, .. } => seq![(path.push(name@), info, meta)] + levels_in(meta, path.push(name@)),
            _ => Seq::empty(),
        }
    }
    /// sections contributed by the command entries of a help item list, in order
    #[cfg(feature = "docgen")]
    pub open spec fn levels_seq<'a>(items: Seq<HelpItem<'a>>, path: Seq<Seq<char>>) -> Seq<(Seq<Seq<char>>, &'a Info, &'a Meta)>
        decreases items.len(),
    {
        if items.len() == 0 { Seq::empty() } else { levels_seq(items.drop_last(), path) + entry_levels(items.last(), path) }
    }
    #[cfg(feature = "docgen")]
    pub open spec fn path_text(p: Seq<String>) -> Seq<Seq<char>> { p.map_values(|s: String| s@) }
    #[cfg(feature = "docgen")]
    pub open spec fn sections_text<'a>(v: Seq<DocSection<'a>>) -> Seq<(Seq<Seq<char>>, &'a Info, &'a Meta)> {
        v.map_values(|d: DocSection<'a>| (path_text(d.path@), d.info, d.meta))
    }

    /// both ledgers still have item j
    pub open spec fn both_present(a: State, b: State, j: int) -> bool {
        0 <= j < a.item_state.len() && j < b.item_state.len() && present(a.item_state[j]) && present(b.item_state[j])
    }

    /// [s, e) is a run of items available in `pre` followed only by already consumed ones
    pub open spec fn run_then_holes(pre: State, s: int, e: int) -> bool {
        exists|m: int| #[trigger] run_split(pre, s, m, e)
    }
    pub open spec fn run_split(pre: State, s: int, m: int, e: int) -> bool {
        s <= m <= e && (forall|i: int| s <= i < m ==> present(#[trigger] pre.item_state[i]))
            && (forall|i: int| m <= i < e ==> !present(#[trigger] pre.item_state[i]))
    }

    /// C19: what an adjacent group consumed is exactly one contiguous run [s, e) of items that were all available
    pub open spec fn consumed_block(pre: State, post: State, s: int, e: int) -> bool {
        &&& forall|i: int| 0 <= i < pre.item_state.len() && present(#[trigger] pre.item_state[i]) && !present(post.item_state[i]) ==> s <= i < e
        &&& forall|i: int| s <= i < e ==> present(#[trigger] pre.item_state[i]) && !present(post.item_state[i])
    }

    /// consumption happens only inside the scope the parser was given
    pub open spec fn in_scope_only(pre: State, post: State) -> bool {
        forall|i: int| 0 <= i < pre.item_state.len() && present(#[trigger] pre.item_state[i]) && !present(post.item_state[i])
            ==> pre.scope.start <= i < pre.scope.end
    }

    /// relational denotation of `parse_option(p, &mut len, args, catch)`:
    /// the inner parser runs once from `pre`; its value is kept iff something was consumed relative to `len0`;
    /// its failure is swallowed (state restored to `pre`) iff `catch`, or it is `Missing` and nothing was consumed,
    /// or it is a catchable non-`Missing` error; every other failure is returned unchanged with the state the inner left
    pub open spec fn opt_rel<T, P: Parser<T>>(p: P, pre: State, len0: usize, catch: bool, r: Result<Option<T>, Error>, post: State, len1: usize) -> bool {
        exists|ri: Result<T, Error>, mid: State| #[trigger] p.rel(pre, ri, mid) && step(pre, mid) && opt_case(pre, len0, catch, ri, mid, r, post, len1)
    }

    pub open spec fn swallows(pre: State, catch: bool, e: Message, mid: State) -> bool {
        catch || (e is Missing && pre.remaining == mid.remaining) || (!(e is Missing) && catchable(e))
    }

    pub open spec fn opt_case<T>(pre: State, len0: usize, catch: bool, ri: Result<T, Error>, mid: State, r: Result<Option<T>, Error>, post: State, len1: usize) -> bool {
        match ri {
            Ok(v) => post == mid && (if mid.remaining < len0 { r == Ok::<Option<T>, Error>(Some(v)) && len1 == mid.remaining } else { r == Ok::<Option<T>, Error>(None) && len1 == len0 }),
            Err(e) => len1 == len0 && (if swallows(pre, catch, e.0, mid) { r == Ok::<Option<T>, Error>(None) && restored(pre, mid, post) } else { r == Err::<Option<T>, Error>(e) && post == mid }),
        }
    }

    /// `vals` were produced by successive successful `parse_option` rounds starting at (pre, len0) and ending in (cur, len)
    pub open spec fn iter_rel<T, P: Parser<T>>(p: P, catch: bool, pre: State, len0: usize, vals: Seq<T>, cur: State, len: usize) -> bool
        decreases vals.len(),
    {
        if vals.len() == 0 {
            cur == pre && len == len0
        } else {
            // (the trigger must not be the recursive call: its fuel differs between definition and use)
            exists|mid: State, lenm: usize| iter_rel(p, catch, pre, len0, vals.drop_last(), mid, lenm)
                && #[trigger] opt_rel(p, mid, lenm, catch, Ok::<Option<T>, Error>(Some(vals.last())), cur, len)
        }
    }

    /// ix is the first ledger index at which exactly one of the two branches consumed the item
    pub open spec fn first_diff(a: Seq<ItemState>, b: Seq<ItemState>, ix: int) -> bool {
        &&& 0 <= ix < a.len() && ix < b.len()
        &&& present(a[ix]) != present(b[ix])
        &&& forall|j: int| 0 <= j < ix ==> present(#[trigger] a[j]) == present(b[j])
    }

    /// `out` is the winner's state in which every item the loser consumed and the winner left is marked Conflict(win)
    /// (still present, so the leftover check fails the run); nothing else differs
    pub open spec fn conflicts_saved(w: State, l: State, win: usize, out: State) -> bool {
        &&& out.items == w.items && out.remaining == w.remaining && out.current == w.current && out.path == w.path && out.scope == w.scope
        &&& out.comp_eq(w)
        &&& out.item_state.len() == w.item_state.len()
        &&& forall|i: int| 0 <= i < w.item_state.len() ==> #[trigger] out.item_state[i] ==
                (if i < l.item_state.len() && present(w.item_state[i]) && !present(l.item_state[i]) { ItemState::Conflict(win) } else { w.item_state[i] })
    }

    /// spec of Message::combine_with as a relation
    pub open spec fn combined(a: Message, b: Message, r: Message) -> bool {
        &&& a is ParseFailure ==> r == a
        &&& !(a is ParseFailure) && b is ParseFailure ==> r == b
        &&& a is Missing && b is Missing ==> r is Missing && r->Missing_0@ == a->Missing_0@ + b->Missing_0@
        &&& !(a is ParseFailure) && !(b is ParseFailure) && !(a is Missing && b is Missing) ==> r == (if catchable(a) { b } else { a })
    }

    /// The decision table of `or_else` (this_or_that_picks_first): `a`/`b` are the states the two branches left,
    /// `ea`/`eb` their errors (None = success). `out` = Ok(true): first branch taken, Ok(false): second, Err: both failed.
    pub open spec fn or_case(pre: State, a: State, ea: Option<Error>, b: State, eb: Option<Error>, out: Result<bool, Error>, post: State) -> bool {
        if a.path.len() < b.path.len() {
            // deeper path wins regardless of the outcome
            post == b && (match eb { Some(e) => out == Err::<bool, Error>(e), None => out == Ok::<bool, Error>(false) })
        } else if a.path.len() > b.path.len() {
            post == a && (match ea { Some(e) => out == Err::<bool, Error>(e), None => out == Ok::<bool, Error>(true) })
        } else {
            match (ea, eb) {
                (None, None) => {
                    if pre.remaining == a.remaining && pre.remaining == b.remaining {
                        out == Ok::<bool, Error>(true) && post == a
                    } else if forall|ix: int| !first_diff(a.item_state@, b.item_state@, ix) {
                        out == Ok::<bool, Error>(true) && post == a
                    } else {
                        exists|ix: int| #[trigger] first_diff(a.item_state@, b.item_state@, ix) && (
                            if !present(a.item_state[ix]) { out == Ok::<bool, Error>(true) && conflicts_saved(a, b, ix as usize, post) }
                            else { out == Ok::<bool, Error>(false) && conflicts_saved(b, a, ix as usize, post) })
                    }
                },
                (Some(e1), Some(e2)) => post == pre && out is Err && combined(e1.0, e2.0, out->Err_0.0),
                (None, Some(_)) => out == Ok::<bool, Error>(true) && post == a,
                (Some(_), None) => out == Ok::<bool, Error>(false) && post == b,
            }
        }
    }

    /// "one of these variables is set"
    pub open spec fn env_present(names: Seq<&'static str>) -> bool { env_value(names) is Some }

    /// relational denotation assumed for ParseFlag::eval (src/params.rs:534-564, iterator + std::env code):
    /// on the line -> leftmost matching item consumed, `present`; else variable set -> `present`, nothing consumed;
    /// else `absent` if there is one, otherwise a catchable Missing/NoEnv error; state untouched in the last three cases
    pub open spec fn flag_rel<T: Clone>(named: NamedArg, present_v: T, absent_v: Option<T>, pre: State, r: Result<T, Error>, post: State) -> bool {
        if exists|i: int| #[trigger] pre.avail(i) && named.matches_spec(pre.items[i], false) {
            exists|i: int| #[trigger] pre.first_match(named, false, i)
                && post.item_state@ == pre.consumed1(i) && post.remaining == pre.remaining - 1
                && post.items == pre.items && post.scope == pre.scope && post.path == pre.path
                && r is Ok && call_ensures(T::clone, (&present_v,), r->Ok_0) // the `present` value
        } else {
            same_but_current_c(post, pre) && (
                if env_present(named.env@) { r is Ok && call_ensures(T::clone, (&present_v,), r->Ok_0) }
                else { match absent_v {
                    Some(a) => r is Ok && call_ensures(T::clone, (&a,), r->Ok_0), // the declared `absent` value
                    None => r is Err && (r->Err_0.0 is Missing || r->Err_0.0 is NoEnv) } })
        }
    }

    pub open spec fn version_requested(info: Info, s: State) -> bool {
        info.version is Some && (env_present(info.version_arg.env@)
            || exists|i: int| #[trigger] s.avail(i) && info.version_arg.matches_spec(s.items[i], false))
    }

    pub open spec fn help_requested(info: Info, s: State) -> bool {
        exists|i: int| #[trigger] s.avail(i) && info.help_arg.matches_spec(s.items[i], false)
    }

    /// relational denotation of OptionParser::run_subparser
    pub open spec fn run_rel<T>(p: OptionParser<T>, pre: State, r: Result<T, ParseFailure>, post: State) -> bool {
        exists|ri: Result<T, Error>, mid: State| #[trigger] p.inner.rel(pre, ri, mid) && step(pre, mid) && run_case(p, pre, ri, mid, r, post)
    }

    pub open spec fn inner_final<T>(ri: Result<T, Error>) -> Option<ParseFailure> {
        match ri {
            Err(e) => match e.0 { Message::ParseFailure(f) => Some(f), _ => None },
            Ok(_) => None,
        }
    }

    pub open spec fn run_case<T>(p: OptionParser<T>, pre: State, ri: Result<T, Error>, mid: State, r: Result<T, ParseFailure>, post: State) -> bool {
        let fin = inner_final(ri);
        let parser_failed = ri is Err && !(fin is Some && fin->Some_0 is Stdout);
        if parser_failed && p.info.help_if_no_args && pre.remaining == 0 {
            // fallback_to_usage: no arguments at all and the parser failed -> usage on stdout
            post == mid && r is Err && r->Err_0 is Stdout
        } else if fin is Some {
            // an inner level's final output (help of a subcommand, its error) is passed through untouched
            post == mid && r == Err::<T, ParseFailure>(fin->Some_0)
        } else if completion_outcome(mid, r, post) {
            // completion mode (only when compiled in and requested): completion output takes precedence over value, help and error
            true
        } else if ri is Ok && (forall|i: int| !#[trigger] mid.avail(i)) {
            // the only way to a value: the inner parser succeeded and nothing available is left
            post == mid && r == Ok::<T, ParseFailure>(ri->Ok_0)
        } else {
            // inner failure or leftovers: help/version lookup comes first and wins; otherwise stderr
            exists|ei: Result<ExtraParams, Error>| #[trigger] p.info.rel(mid, ei, post) && (
                if ei is Ok { r is Err && r->Err_0 is Stdout } else { r is Err && r->Err_0 is Stderr })
        }
    }

    /// A-parse_os_str: conversion of an OS string into T (src/from_os_str.rs; TypeId/Any/FromStr code) is an uninterpreted function
    pub uninterp spec fn os_parse<T>(os: OsString) -> Result<T, String>;

    /// the value of the first set variable among `names`, in declaration order, in the environment `env`
    pub open spec fn env_value_in(env: spec_fn(&'static str) -> Option<OsString>, names: Seq<&'static str>) -> Option<OsString>
        decreases names.len(),
    {
        if names.len() == 0 { None } else if env(names[0]) is Some { env(names[0]) } else { env_value_in(env, names.drop_first()) }
    }
    /// the same in the environment of this run (C18: only declared variables matter, see lemma.C18.undeclared_variables_are_irrelevant)
    pub open spec fn env_value(names: Seq<&'static str>) -> Option<OsString>
        decreases names.len(),
    {
        if names.len() == 0 { None } else if env_var(names[0]) is Some { env_var(names[0]) } else { env_value(names.drop_first()) }
    }
    /// a NamedArg can be looked for: it has a short or long name or an environment variable
    pub open spec fn named_has_key(n: NamedArg) -> bool { n.short@.len() > 0 || n.long@.len() > 0 || n.env@.len() > 0 }
    /// the name an item is listed under: first short and first long name
    pub open spec fn first_names(n: NamedArg) -> Result<ShortLong, ()> {
        if n.short@.len() == 0 && n.long@.len() == 0 { Err(()) }
        else if n.short@.len() == 0 { Ok(ShortLong::Long(n.long@[0])) }
        else if n.long@.len() == 0 { Ok(ShortLong::Short(n.short@[0])) }
        else { Ok(ShortLong::Both(n.short@[0], n.long@[0])) }
    }
    pub open spec fn first_env(env: Seq<&'static str>) -> Option<&'static str> { if env.len() == 0 { None } else { Some(env[0]) } }
    /// everything but `current` and the completion bookkeeping is equal; the bookkeeping too outside completion mode
    pub open spec fn same_but_current_c(post: State, pre: State) -> bool {
        &&& post.items == pre.items && post.item_state == pre.item_state && post.remaining == pre.remaining
        &&& post.path == pre.path && post.scope == pre.scope
        &&& (no_comp(pre) ==> post.comp_eq(pre))
    }

    /// relational denotation of parse_pos_word: the strictness table of C09
    pub open spec fn pos_rel(position: Position, metavar: Metavar, pre: State, r: Result<OsString, Error>, post: State) -> bool {
        if exists|i: int| #[trigger] pre.first_pos_word(i) {
            exists|i: int| #[trigger] pre.first_pos_word(i) && {
                let pw = pos_word(pre.items[i])->Some_0;
                &&& post.item_state@ == pre.consumed1(i) && post.remaining == pre.remaining - 1 && post.current == Some(i as usize)
                &&& post.items == pre.items && post.scope == pre.scope && post.path == pre.path
                &&& if position is Strict && !pw.0 { r == Err::<OsString, Error>(Error(Message::StrictPos(i as usize, metavar))) }
                    else if position is NonStrict && pw.0 { r == Err::<OsString, Error>(Error(Message::NonStrictPos(i as usize, metavar))) }
                    else { r == Ok::<OsString, Error>(pw.1) }
            }
        } else {
            unchanged(pre, post) && r is Err && is_missing_positional(r->Err_0, metavar, pre.scope)
        }
    }

    /// relational denotation assumed for ParseArgument::take_argument (line first, then first set variable, then Missing/NoEnv)
    pub open spec fn arg_rel(named: NamedArg, adjacent: bool, metavar: Metavar, pre: State, r: Result<OsString, Error>, post: State) -> bool {
        if !pre.no_match(named, adjacent) {
            exists|k: int| #[trigger] pre.first_match(named, adjacent, k) && (
                if pre.avail(k + 1) && value_word(pre.items[k + 1]) is Some {
                    &&& r == Ok::<OsString, Error>(value_word(pre.items[k + 1])->Some_0)
                    &&& post.item_state@ == pre.item_state@.update(k, ItemState::Parsed).update(k + 1, ItemState::Parsed)
                    &&& post.remaining == pre.remaining - 2 && post.current == Some((k + 1) as usize)
                    &&& post.items == pre.items && post.scope == pre.scope && post.path == pre.path
                } else {
                    r is Err && is_no_argument(r->Err_0, k, metavar) && unchanged(pre, post)
                })
        } else {
            match env_value(named.env@) {
                Some(v) => r == Ok::<OsString, Error>(v) && same_but_current_c(post, pre) && post.current is None,
                None => r is Err && (r->Err_0.0 is Missing || r->Err_0.0 is NoEnv) && unchanged(pre, post),
            }
        }
    }

    /// sequential composition (construct!(a, b)): `b` runs on exactly the state `a` left, even after `a` failed
    /// (unless failfast); the first failing field's error is the one reported; values in declaration order
    pub open spec fn con2_rel<TA, TB, A: Parser<TA>, B: Parser<TB>>(a: A, b: B, failfast: bool, pre: State, r: Result<(TA, TB), Error>, post: State) -> bool {
        exists|ra: Result<TA, Error>, m1: State| #[trigger] a.rel(pre, ra, m1) && step(pre, m1) && (
            if failfast && ra is Err { r == Err::<(TA, TB), Error>(ra->Err_0) && post == m1 }
            else {
                exists|rb: Result<TB, Error>, m2: State| #[trigger] b.rel(m1, rb, m2) && step(m1, m2) && (
                    if ra is Err { r == Err::<(TA, TB), Error>(ra->Err_0) && post == m2 }
                    else if rb is Err { r == Err::<(TA, TB), Error>(rb->Err_0) && post == m2 }
                    else { r == Ok::<(TA, TB), Error>((ra->Ok_0, rb->Ok_0)) && post.same_but_current(m2) && post.current is None })
            })
    }

    pub open spec fn con3_rel<TA, TB, TC, A: Parser<TA>, B: Parser<TB>, C: Parser<TC>>(a: A, b: B, c: C, failfast: bool, pre: State, r: Result<(TA, TB, TC), Error>, post: State) -> bool {
        exists|ra: Result<TA, Error>, m1: State| #[trigger] a.rel(pre, ra, m1) && step(pre, m1) && (
            if failfast && ra is Err { r == Err::<(TA, TB, TC), Error>(ra->Err_0) && post == m1 }
            else {
                exists|rb: Result<TB, Error>, m2: State, rc: Result<TC, Error>, m3: State|
                    #![trigger b.rel(m1, rb, m2), c.rel(m2, rc, m3)]
                    b.rel(m1, rb, m2) && step(m1, m2) && c.rel(m2, rc, m3) && step(m2, m3) && (
                    if ra is Err { r == Err::<(TA, TB, TC), Error>(ra->Err_0) && post == m3 }
                    else if rb is Err { r == Err::<(TA, TB, TC), Error>(rb->Err_0) && post == m3 }
                    else if rc is Err { r == Err::<(TA, TB, TC), Error>(rc->Err_0) && post == m3 }
                    else { r == Ok::<(TA, TB, TC), Error>((ra->Ok_0, rb->Ok_0, rc->Ok_0)) && post.same_but_current(m3) && post.current is None })
            })
    }

    /// every ledger entry is as present in `x` as in `y`
    pub open spec fn same_presence(x: State, y: State) -> bool {
        x.item_state.len() == y.item_state.len() && forall|i: int| 0 <= i < x.item_state.len() ==> present(#[trigger] x.item_state[i]) == present(y.item_state[i])
    }

    pub open spec fn res_err<T>(r: Result<T, Error>) -> Option<Error> {
        match r { Ok(_) => None, Err(e) => Some(e) }
    }

    /// `post` is `pre` again (completion bookkeeping, when compiled in, is taken from `mid`)
    #[cfg(not(feature = "autocomplete"))]
    pub open spec fn restored(pre: State, mid: State, post: State) -> bool { post == pre }
    /// with completion compiled in, the hint list of the failed attempt is kept (or the old one if the attempt has none)
    #[cfg(feature = "autocomplete")]
    pub open spec fn restored(pre: State, mid: State, post: State) -> bool {
        &&& post.items == pre.items && post.item_state == pre.item_state && post.remaining == pre.remaining
        &&& post.current == pre.current && post.path == pre.path && post.scope == pre.scope
        &&& (post.comp == mid.comp || (mid.comp is None && post.comp == pre.comp))
    }

    /// `post` is `pre` (with completion compiled in: up to the completion bookkeeping, which stays None if it was None)
    #[cfg(not(feature = "autocomplete"))]
    pub open spec fn unchanged(pre: State, post: State) -> bool { post == pre }
    #[cfg(feature = "autocomplete")]
    pub open spec fn unchanged(pre: State, post: State) -> bool { post.same_but_comp(pre) && (pre.comp is None ==> post == pre) }

    /// equal up to the completion bookkeeping (plain equality when completion is not compiled in)
    #[cfg(not(feature = "autocomplete"))]
    pub open spec fn eqc(a: State, b: State) -> bool { a == b }
    #[cfg(feature = "autocomplete")]
    pub open spec fn eqc(a: State, b: State) -> bool { a.same_but_comp(b) }

    /// not in completion mode (always true when completion is not compiled in)
    #[cfg(not(feature = "autocomplete"))]
    pub open spec fn no_comp(s: State) -> bool { true }
    #[cfg(feature = "autocomplete")]
    pub open spec fn no_comp(s: State) -> bool { s.comp is None }

    /// completion output requested and produced (never, when completion is not compiled in)
    #[cfg(not(feature = "autocomplete"))]
    pub open spec fn completion_outcome<T>(mid: State, r: Result<T, ParseFailure>, post: State) -> bool { false }
    #[cfg(feature = "autocomplete")]
    pub open spec fn completion_outcome<T>(mid: State, r: Result<T, ParseFailure>, post: State) -> bool {
        mid.comp is Some && post == mid && r is Err && r->Err_0 is Completion
    }

    /// completion mode never starts or ends in the middle of a run: `comp` stays None / stays Some
    #[cfg(not(feature = "autocomplete"))]
    pub open spec fn comp_inert(pre: State, post: State) -> bool { true }
    #[cfg(feature = "autocomplete")]
    pub open spec fn comp_inert(pre: State, post: State) -> bool { (pre.comp is None) == (post.comp is None) }

    impl State {
        /// i is the first available item of the scope
        pub open spec fn first_avail(&self, i: int) -> bool {
            self.avail(i) && forall|j: int| self.scope.start <= j < i ==> !#[trigger] self.avail(j)
        }
        /// i is the leftmost available Word/PosWord
        pub open spec fn first_pos_word(&self, i: int) -> bool {
            &&& self.avail(i)
            &&& pos_word(self.items[i]) is Some
            &&& forall|j: int| self.scope.start <= j < i && #[trigger] self.avail(j) ==> pos_word(self.items[j]) is None
        }
        /// everything but `current` is equal
        pub open spec fn same_but_current(&self, o: State) -> bool {
            &&& self.items == o.items
            &&& self.item_state == o.item_state
            &&& self.remaining == o.remaining
            &&& self.path == o.path
            &&& self.scope == o.scope
            &&& self.comp_eq(o)
        }
        /// everything but the completion bookkeeping is equal
        pub open spec fn same_but_comp(&self, o: State) -> bool {
            &&& self.items == o.items && self.item_state == o.item_state && self.remaining == o.remaining
            &&& self.current == o.current && self.path == o.path && self.scope == o.scope
        }
        #[cfg(not(feature = "autocomplete"))]
        pub open spec fn comp_eq(&self, o: State) -> bool { true }
        #[cfg(feature = "autocomplete")]
        pub open spec fn comp_eq(&self, o: State) -> bool { self.comp == o.comp }
    }

    impl<'a> ArgsIter<'a> {
        pub open spec fn wf(&self) -> bool {
            self.args.wf() && self.args.scope.start <= self.cur
        }
    }

    // ---- short option clusters (src/args.rs disambiguate_short)
    pub open spec fn lists(xs: Seq<char>, c: char) -> bool { exists|i: int| 0 <= i < xs.len() && peq(#[trigger] xs[i], c) }
    /// `c` can only be a flag
    pub open spec fn pure_flag(c: char, fl: Seq<char>, ar: Seq<char>) -> bool { lists(fl, c) && !lists(ar, c) }
    /// items `new[0..j)` are the short flags `s[0..j)`, none with an attached value, the first carrying the whole word
    pub open spec fn flag_run(new: Seq<Arg>, s: Seq<char>, j: int, os: OsString) -> bool {
        &&& new.len() >= j
        &&& forall|i: int| 0 <= i < j ==> ((#[trigger] new[i]) matches Arg::Short(c, adj, _) && c == s[i] && !adj)
        &&& (j > 0 ==> (new[0] matches Arg::Short(_, _, o) && o == os))
    }
    /// what is appended for the cluster `s` (the text after `-`), `j` being the length of its prefix of pure flags:
    /// one lone name; all flags; flags then an argument name with the rest as its attached value; the whole word kept as a
    /// positional; or flags up to the ambiguous name and the error
    pub open spec fn cluster_items(new: Seq<Arg>, r: Option<Message>, base: int, s: Seq<char>, short: String, fl: Seq<char>, ar: Seq<char>, os: OsString, j: int) -> bool {
        let n = s.len() as int;
        if n == 1 {
            new == seq![Arg::Short(s[0], false, os)] && r is None
        } else if j == n {
            flag_run(new, s, n, os) && new.len() == n && r is None
        } else if !lists(fl, s[j]) && lists(ar, s[j]) {
            &&& flag_run(new, s, j, os) && r is None
            &&& new.len() == j + 1 + (if j + 1 < n { 1int } else { 0int })
            &&& (new[j] matches Arg::Short(c, adj, o) && c == s[j] && adj == (j + 1 < n) && o == os)
            &&& (j + 1 < n ==> new[j + 1] == Arg::Word(os_of_chars(s.skip(j + 1))))
        } else if !lists(fl, s[j]) && !lists(ar, s[j]) {
            new == seq![Arg::Word(os)] && r is None
        } else {
            &&& flag_run(new, s, j, os) && new.len() == j + 1 && new[j] == Arg::Word(os)
            &&& r == Some(Message::Ambiguity((base + j) as usize, short))
        }
    }
    pub open spec fn cluster_post(new: Seq<Arg>, r: Option<Message>, base: int, short: String, fl: Seq<char>, ar: Seq<char>, os: OsString) -> bool {
        exists|j: int| 0 <= j <= short@.len()
            && (forall|i: int| 0 <= i < j ==> pure_flag(#[trigger] short@[i], fl, ar))
            && (1 < short@.len() && j < short@.len() ==> !pure_flag(short@[j], fl, ar))
            && #[trigger] cluster_items(new, r, base, short@, short, fl, ar, os, j)
    }

    // ---- the three lists of `--help` (src/meta_help.rs HelpItemsIter)
    /// C12: the list an item belongs to: flags, arguments and `anywhere` items under options; commands under commands;
    /// positionals and plain `any` items under positionals; decorations carry the list of the item they decorate
    pub open spec fn section_of(h: HelpItem) -> HiTy {
        match h {
            HelpItem::GroupStart { ty, .. } | HelpItem::DecorSuffix { ty, .. } | HelpItem::GroupEnd { ty } | HelpItem::AnywhereStart { ty, .. } | HelpItem::AnywhereStop { ty } => ty,
            HelpItem::Any { anywhere, .. } => if anywhere { HiTy::Flag } else { HiTy::Positional },
            HelpItem::Positional { .. } => HiTy::Positional,
            HelpItem::Command { .. } => HiTy::Command,
            HelpItem::Flag { .. } | HelpItem::Argument { .. } => HiTy::Flag,
        }
    }
    pub open spec fn described(h: HelpItem) -> bool {
        match h {
            HelpItem::Positional { help, .. } | HelpItem::Command { help, .. } | HelpItem::Flag { help, .. } | HelpItem::Any { help, .. } | HelpItem::Argument { help, .. } => help is Some,
            HelpItem::GroupStart { .. } | HelpItem::DecorSuffix { .. } => true,
            HelpItem::GroupEnd { .. } | HelpItem::AnywhereStart { .. } | HelpItem::AnywhereStop { .. } => false,
        }
    }
    pub open spec fn is_bracket(h: HelpItem) -> bool { h is AnywhereStart || h is GroupStart || h is GroupEnd || h is AnywhereStop }
    /// decoration block the entry at index k is in (determined by the brackets before it)
    pub open spec fn block_at(items: Seq<HelpItem>, k: int) -> ItemBlock
        decreases k,
    {
        if k <= 0 || k > items.len() { ItemBlock::No } else {
            match items[k - 1] {
                HelpItem::AnywhereStart { ty, .. } => ItemBlock::Anywhere(ty),
                HelpItem::GroupStart { ty, .. } => ItemBlock::Decor(ty),
                HelpItem::GroupEnd { .. } | HelpItem::AnywhereStop { .. } => ItemBlock::No,
                _ => block_at(items, k - 1),
            }
        }
    }
    /// entry k is shown in the list `target`
    pub open spec fn listed_under(items: Seq<HelpItem>, target: HiTy, k: int) -> bool {
        if is_bracket(items[k]) { section_of(items[k]) == target } else {
            match block_at(items, k) {
                ItemBlock::No => section_of(items[k]) == target,
                ItemBlock::Decor(t) => t == target,
                ItemBlock::Anywhere(t) => t == target && described(items[k]),
            }
        }
    }

    // ---- roff escaping (src/buffer/manpage/escape.rs; C16)
    /// bytes of the apostrophe replacement `\*(Aq`
    pub open spec fn apos() -> Seq<u8> { seq![92u8, 42u8, 40u8, 65u8, 113u8] }
    /// what one byte of a fragment turns into (the table in the doc comments of `Escape`): request arguments (`Spaces`) get
    /// space / newline / backslash escaped; text (`Special*`) gets `\&` in front of `.` and `'` at a line start, a backslash in front
    /// of `\` and `-`, the apostrophe replaced, and (NoNewline) a newline turned into a space; `Unescaped*` is bpaf's own roff
    pub open spec fn esc_byte(meta: Escape, ap: Apostrophes, c: u8, at_start: bool) -> Seq<u8> {
        match meta {
            Escape::Spaces => if c == 32 || c == 10 { seq![92u8, 32u8] } else if c == 92 { seq![92u8, 92u8] } else { seq![c] },
            Escape::Special | Escape::SpecialNoNewline =>
                (if at_start && (c == 46 || c == 39) { seq![92u8, 38u8] } else { Seq::<u8>::empty() })
                + (if c == 92 || c == 45 { seq![92u8] } else { Seq::<u8>::empty() })
                + (if ap == Apostrophes::Handle && c == 39 { apos() } else if meta == Escape::SpecialNoNewline && c == 10 { seq![32u8] } else { seq![c] }),
            Escape::Unescaped | Escape::UnescapedAtNewline => seq![c],
        }
    }
    /// "the next byte starts a line" after byte c: exactly when the last byte written for c is a newline (the `Escape` docs:
    /// UnescapedAtNewline "inserts a newline character unless on a new line already") - request arguments and NoNewline text never
    /// write one
    pub open spec fn esc_flag(meta: Escape, ap: Apostrophes, c: u8) -> bool {
        c == 10 && !(meta is Spaces) && !(meta is SpecialNoNewline)
    }
    /// escaping of the first n bytes of a fragment: (output, at_line_start afterwards)
    pub open spec fn esc_frag(meta: Escape, ap: Apostrophes, bs: Seq<u8>, n: int, at_start: bool) -> (Seq<u8>, bool)
        decreases n,
    {
        if n <= 0 { (Seq::<u8>::empty(), at_start) } else {
            let (o, a) = esc_frag(meta, ap, bs, n - 1, at_start);
            (o + esc_byte(meta, ap, bs[n - 1], a), esc_flag(meta, ap, bs[n - 1]))
        }
    }
    pub open spec fn frag_out(meta: Escape, ap: Apostrophes, bs: Seq<u8>, at_start: bool) -> (Seq<u8>, bool) {
        let a0 = if !at_start && meta == Escape::UnescapedAtNewline { true } else { at_start };
        let pre = if !at_start && meta == Escape::UnescapedAtNewline { seq![10u8] } else { Seq::<u8>::empty() };
        let (o, a) = esc_frag(meta, ap, bs, bs.len() as int, a0);
        (pre + o, a)
    }
    /// escaping of the first n fragments, starting at a line start
    pub open spec fn esc_all(frags: Seq<(Escape, Seq<u8>)>, ap: Apostrophes, n: int) -> (Seq<u8>, bool)
        decreases n,
    {
        if n <= 0 { (Seq::<u8>::empty(), true) } else {
            let (o, a) = esc_all(frags, ap, n - 1);
            let (o2, a2) = frag_out(frags[n - 1].0, ap, frags[n - 1].1, a);
            (o + o2, a2)
        }
    }
    /// `.` and `'` open a roff request when they start a line
    pub open spec fn ctl(b: u8) -> bool { b == 46 || b == 39 }
    /// fragments that carry user text of the page body
    pub open spec fn body_meta(m: Escape) -> bool { m == Escape::Special || m == Escape::SpecialNoNewline }

    // ---- shell quoting (src/complete_shell.rs; C15)
    /// the four chars `'\''` that stand for one single quote inside a single-quoted shell word
    pub open spec fn q_lit() -> Seq<char> { seq!['\'', '\\', '\'', '\''] }
    pub open spec fn q_step(acc: Seq<char>, c: char) -> Seq<char> { if c == '\'' { acc + q_lit() } else { acc.push(c) } }
    pub open spec fn q_acc(pre: Seq<char>, s: Seq<char>, n: int) -> Seq<char> decreases n { if n <= 0 { pre } else { q_step(q_acc(pre, s, n - 1), s[n - 1]) } }
    /// `pre` followed by `s` written as one single-quoted shell word
    pub open spec fn quoted(pre: Seq<char>, s: Seq<char>) -> Seq<char> { q_acc(pre.push('\''), s, s.len() as int).push('\'') }

    /// how a POSIX shell reads a word: single-quoted stretches are literal, `\c` outside quotes is the char c, anything else outside
    /// quotes is not plain data (word splitting, expansion, operators) and makes the reading fail
    pub struct ShSt { pub in_q: bool, pub esc: bool, pub ok: bool, pub out: Seq<char> }
    pub open spec fn sh_step(st: ShSt, c: char) -> ShSt {
        if !st.ok { st }
        else if st.esc { ShSt { esc: false, out: st.out.push(c), ..st } }
        else if st.in_q { if c == '\'' { ShSt { in_q: false, ..st } } else { ShSt { out: st.out.push(c), ..st } } }
        else if c == '\'' { ShSt { in_q: true, ..st } }
        else if c == '\\' { ShSt { esc: true, ..st } }
        else { ShSt { ok: false, ..st } }
    }
    pub open spec fn sh_run(st: ShSt, w: Seq<char>, n: int) -> ShSt decreases n { if n <= 0 { st } else { sh_step(sh_run(st, w, n - 1), w[n - 1]) } }
    pub open spec fn sh_start() -> ShSt { ShSt { in_q: false, esc: false, ok: true, out: Seq::empty() } }

    // ---- completion candidates (src/complete_gen.rs; C14, C20)
    #[cfg(not(feature = "autocomplete"))]
    pub open spec fn same_candidates(pre: State, post: State) -> bool { true }
    /// what a completion hook may do to the state: nothing but append one candidate `c` (only in completion mode)
    #[cfg(feature = "autocomplete")]
    pub open spec fn pushes_candidate(pre: State, post: State, c: Comp) -> bool {
        &&& post.same_but_comp(pre)
        &&& (pre.comp is None ==> post == pre)
        &&& (pre.comp matches Some(k) ==> post.comp is Some && post.comp->Some_0.comps@ == k.comps@.push(c)
                && post.comp->Some_0.output_rev == k.output_rev && post.comp->Some_0.no_pos_ahead == k.no_pos_ahead)
    }
    /// the candidate list is the same (always true when completion is not compiled in / not requested)
    #[cfg(feature = "autocomplete")]
    pub open spec fn same_candidates(pre: State, post: State) -> bool {
        pre.comp matches Some(k) ==> post.comp is Some && post.comp->Some_0.comps@ == k.comps@
    }
    /// the hook leaves everything as it is
    #[cfg(feature = "autocomplete")]
    pub open spec fn pushes_nothing(pre: State, post: State) -> bool { post == pre }

    // ---- what a primitive parser shows about itself (Parser::meta) versus what it accepts (C12)
    /// the item a Meta shows, looking through `Optional` / `Strict`
    pub open spec fn shown_item(m: Meta) -> Option<Item> {
        match m {
            Meta::Item(i) => Some(*i),
            Meta::Optional(x) => match *x { Meta::Item(i) => Some(*i), _ => None },
            Meta::Strict(x) => match *x { Meta::Item(i) => Some(*i), _ => None },
            _ => None,
        }
    }
    /// the item is shown under the names `first_names(named)`
    pub open spec fn shows_names_of(m: Meta, named: NamedArg) -> bool {
        match shown_item(m) {
            Some(Item::Flag { name, .. }) => first_names(named) == Ok::<ShortLong, ()>(name),
            Some(Item::Argument { name, .. }) => first_names(named) == Ok::<ShortLong, ()>(name),
            _ => false,
        }
    }
}

pub mod lemmas {
    use super::*;
    use super::prelude::*;
    use super::real::*;
    use super::spec::*;

//@@ lemma
//@@ unit lemmas.ledger_helpers tags=C01,C02,C03,C04,C05,C06,C07,C08,C09,C10,C11,C12,C14,C18,C19,C20
    pub broadcast proof fn lemma_count_update(l: Seq<ItemState>, lo: int, hi: int, i: int, v: ItemState)
        requires 0 <= i < l.len(),
        ensures #[trigger] count_present(l.update(i, v), lo, hi)
            == count_present(l, lo, hi)
               - (if lo <= i < hi && present(l[i]) { 1int } else { 0int })
               + (if lo <= i < hi && present(v) { 1int } else { 0int }),
        decreases hi - lo,
    {
        if lo < hi {
            lemma_count_update(l, lo, hi - 1, i, v);
        }
    }

    pub broadcast proof fn lemma_count_witness(l: Seq<ItemState>, lo: int, hi: int, i: int)
        requires lo <= i < hi, 0 <= i < l.len(), #[trigger] present(l[i]),
        ensures #[trigger] count_present(l, lo, hi) >= 1,
        decreases hi - lo,
    {
        if i < hi - 1 {
            lemma_count_witness(l, lo, hi - 1, i);
        }
    }

    pub proof fn lemma_step_trans(a: State, b: State, c: State)
        requires step(a, b), step(b, c), a.wf(),
        ensures step(a, c),
    {}

    pub proof fn lemma_step_refl(a: State)
        requires a.wf(),
        ensures step(a, a),
    {}

    pub proof fn lemma_iter_push<T, P: Parser<T>>(p: P, catch: bool, pre: State, len0: usize, vals: Seq<T>, mid: State, lenm: usize, v: T, cur: State, len: usize)
        requires
            iter_rel(p, catch, pre, len0, vals, mid, lenm),
            opt_rel(p, mid, lenm, catch, Ok::<Option<T>, Error>(Some(v)), cur, len),
        ensures
            iter_rel(p, catch, pre, len0, vals.push(v), cur, len),
    {
        assert(vals.push(v).drop_last() =~= vals);
        assert(vals.push(v).last() == v);
        assert(iter_rel(p, catch, pre, len0, vals.push(v).drop_last(), mid, lenm));
    }

    pub proof fn lemma_count_presence(l1: Seq<ItemState>, l2: Seq<ItemState>, lo: int, hi: int)
        requires l1.len() == l2.len(), forall|i: int| 0 <= i < l1.len() ==> present(#[trigger] l1[i]) == present(l2[i]),
        ensures count_present(l1, lo, hi) == count_present(l2, lo, hi),
        decreases hi - lo,
    {
        if lo < hi { lemma_count_presence(l1, l2, lo, hi - 1); }
    }

    pub proof fn lemma_count_le(l: Seq<ItemState>, s: int, e: int)
        requires s <= e,
        ensures count_present(l, s, e) <= e - s,
        decreases e - s,
    {
        if s < e { lemma_count_le(l, s, e - 1); }
    }

    pub proof fn lemma_count_full(l: Seq<ItemState>, s: int, e: int)
        requires 0 <= s <= e <= l.len(), count_present(l, s, e) == e - s,
        ensures forall|i: int| s <= i < e ==> present(#[trigger] l[i]),
        decreases e - s,
    {
        if s < e {
            lemma_count_le(l, s, e - 1);
            lemma_count_full(l, s, e - 1);
        }
    }

    pub proof fn lemma_count_all_present(l: Seq<ItemState>, s: int, e: int)
        requires 0 <= s <= e <= l.len(), forall|i: int| s <= i < e ==> present(#[trigger] l[i]),
        ensures count_present(l, s, e) == e - s,
        decreases e - s,
    {
        if s < e { lemma_count_all_present(l, s, e - 1); }
    }

    pub proof fn lemma_count_split(l: Seq<ItemState>, s: int, m: int, e: int)
        requires s <= m <= e,
        ensures count_present(l, s, e) == count_present(l, s, m) + count_present(l, m, e),
        decreases e - m,
    {
        if m < e { lemma_count_split(l, s, m, e - 1); }
    }

    pub proof fn lemma_count_holes(l: Seq<ItemState>, s: int, e: int)
        requires forall|i: int| s <= i < e && 0 <= i < l.len() ==> !present(#[trigger] l[i]),
        ensures count_present(l, s, e) == 0,
        decreases e - s,
    {
        if s < e { lemma_count_holes(l, s, e - 1); }
    }

    pub proof fn lemma_count_mono(l1: Seq<ItemState>, l2: Seq<ItemState>, s: int, e: int)
        requires l1.len() == l2.len(), forall|i: int| 0 <= i < l1.len() && !present(#[trigger] l1[i]) ==> !present(l2[i]),
        ensures count_present(l2, s, e) <= count_present(l1, s, e),
        decreases e - s,
    {
        if s < e { lemma_count_mono(l1, l2, s, e - 1); }
    }

    pub broadcast proof fn lemma_strip_push(s: Seq<HelpItem>, x: HelpItem)
        ensures #[trigger] strip(s.push(x)) == strip(s) + (if is_leaf(x) { seq![x] } else { Seq::empty() }),
    {
        assert(s.push(x).drop_last() =~= s);
    }

    #[cfg(feature = "docgen")]
    pub proof fn lemma_levels_seq_push<'a>(s: Seq<HelpItem<'a>>, x: HelpItem<'a>, path: Seq<Seq<char>>)
        ensures levels_seq(s.push(x), path) == levels_seq(s, path) + entry_levels(x, path),
    {
        assert(s.push(x).drop_last() =~= s);
    }
    #[cfg(feature = "docgen")]
    pub proof fn lemma_levels_seq_add<'a>(a: Seq<HelpItem<'a>>, b: Seq<HelpItem<'a>>, path: Seq<Seq<char>>)
        ensures levels_seq(a + b, path) == levels_seq(a, path) + levels_seq(b, path),
        decreases b.len(),
    {
        if b.len() == 0 {
            assert(a + b =~= a);
        } else {
            lemma_levels_seq_add(a, b.drop_last(), path);
            assert((a + b).drop_last() =~= a + b.drop_last());
            assert((a + b).last() == b.last());
        }
    }
    /// group / block decorations contribute no section: only the item entries matter
    #[cfg(feature = "docgen")]
    pub proof fn lemma_levels_seq_strip<'a>(items: Seq<HelpItem<'a>>, path: Seq<Seq<char>>)
        ensures levels_seq(items, path) == levels_seq(strip(items), path),
        decreases items.len(),
    {
        if items.len() > 0 {
            lemma_levels_seq_strip(items.drop_last(), path);
            if is_leaf(items.last()) {
                lemma_levels_seq_push(strip(items.drop_last()), items.last(), path);
                assert(strip(items.drop_last()) + seq![items.last()] =~= strip(items.drop_last()).push(items.last()));
            } else {
                assert(strip(items) =~= strip(items.drop_last()));
            }
        }
    }
    /// the command entries of the item list of a level are exactly the commands `levels_in` descends into
    #[cfg(feature = "docgen")]
    pub proof fn lemma_levels_leaves<'a>(m: &'a Meta, path: Seq<Seq<char>>)
        ensures levels_seq(leaves(m), path) == levels_in(m, path),
        decreases m, 1int,
    {
        match m {
            Meta::And(xs) | Meta::Or(xs) => { lemma_levels_leaves_upto(m, xs.len() as int, path); }
            Meta::Adjacent(x) | Meta::Subsection(x, _) | Meta::Suffix(x, _) | Meta::CustomUsage(x, _) | Meta::Required(x) | Meta::Optional(x) | Meta::Many(x) | Meta::Strict(x) => { lemma_levels_leaves(&**x, path); }
            Meta::Item(i) => {
                if !helpless_positional(**i) {
                    lemma_levels_seq_push(Seq::empty(), help_item_of(&**i), path);
                    assert(Seq::<HelpItem>::empty().push(help_item_of(&**i)) =~= seq![help_item_of(&**i)]);
                }
            }
            Meta::Skip => {}
        }
    }
    #[cfg(feature = "docgen")]
    pub proof fn lemma_levels_leaves_upto<'a>(m: &'a Meta, n: int, path: Seq<Seq<char>>)
        requires *m is And || *m is Or,
        ensures levels_seq(leaves_upto(m, n), path) == levels_in_upto(m, n, path),
        decreases m, 0int, n,
    {
        let xs = meta_children(*m);
        if n > 0 && n <= xs.len() {
            lemma_levels_leaves_upto(m, n - 1, path);
            lemma_levels_leaves(&xs[n - 1], path);
            lemma_levels_seq_add(leaves_upto(m, n - 1), leaves(&xs[n - 1]), path);
        }
    }

    /// marking conflicts keeps the ledger well formed and consumption monotone
    pub proof fn lemma_conflicts_saved(pre: State, w: State, l: State, win: usize, out: State)
        requires pre.wf(), w.wf(), step(pre, w), conflicts_saved(w, l, win, out),
        ensures out.wf(), step(pre, out),
    {
        lemma_count_presence(w.item_state@, out.item_state@, w.scope.start as int, w.scope.end as int);
    }

//@@ end
    /// A-derive-eq: `#[derive(PartialEq, Eq)]` on ItemState is structural equality (T6)
    #[verifier::external_body]
    pub broadcast proof fn axiom_item_state_eq(a: ItemState, b: ItemState)
        ensures <ItemState as PartialEqSpec>::obeys_eq_spec(), #[trigger] a.eq_spec(&b) == (a == b),
    {}

    /// A-derive-eq: `#[derive(PartialEq, Eq)]` on HiTy is structural equality (T6)
    #[verifier::external_body]
    pub broadcast proof fn axiom_hity_eq(a: HiTy, b: HiTy)
        ensures <HiTy as PartialEqSpec>::obeys_eq_spec(), #[trigger] a.eq_spec(&b) == (a == b),
    {}

    pub broadcast group ledger {
        lemma_count_update,
        lemma_count_witness,
        axiom_item_state_eq,
        axiom_hity_eq,
        lemma_strip_push,
    }

    /// A-derive-eq: `#[derive(PartialEq, Eq)]` on Escape / Apostrophes (fieldless enums) is structural equality (T6)
    #[verifier::external_body]
    pub broadcast proof fn axiom_escape_eq(a: Escape, b: Escape)
        ensures <Escape as PartialEqSpec>::obeys_eq_spec(), #[trigger] a.eq_spec(&b) == (a == b),
    {}
    #[verifier::external_body]
    pub broadcast proof fn axiom_apostrophes_eq(a: Apostrophes, b: Apostrophes)
        ensures <Apostrophes as PartialEqSpec>::obeys_eq_spec(), #[trigger] a.eq_spec(&b) == (a == b),
    {}

//@@ lemma
//@@ unit lemmas.roff_escape_helpers tags=C16 cfg=docgen
    /// the UTF-8 bytes of the constant APOSTROPHE
    #[cfg(feature = "docgen")]
    pub proof fn lemma_apostrophe_bytes()
        ensures APOSTROPHE.spec_bytes() == apos(),
    {
        reveal_strlit("\\*(Aq");
        let cs = APOSTROPHE@;
        assert(cs =~= seq!['\\', '*', '(', 'A', 'q']);
        is_ascii_chars_encode_utf8(cs);
        assert(APOSTROPHE.spec_bytes() =~= apos());
    }

    #[cfg(feature = "docgen")]
    pub proof fn lemma_esc_all_prefix(frags: Seq<(Escape, Seq<u8>)>, x: (Escape, Seq<u8>), ap: Apostrophes, k: int)
        requires 0 <= k <= frags.len(),
        ensures esc_all(frags.push(x), ap, k) == esc_all(frags, ap, k),
        decreases k,
    {
        if k > 0 { lemma_esc_all_prefix(frags, x, ap, k - 1); }
    }
//@@ end

//@@ lemma
//@@ unit lemmas.env_first_set_variable tags=C18,C06
    pub proof fn lemma_env_value_first(names: Seq<&'static str>, i: int)
        requires 0 <= i < names.len(), env_var(names[i]) is Some, forall|j: int| 0 <= j < i ==> env_var(#[trigger] names[j]) is None,
        ensures env_value(names) == env_var(names[i]),
        decreases i,
    {
        if i > 0 {
            let t = names.drop_first();
            assert(t[i - 1] == names[i]);
            assert forall|j: int| 0 <= j < i - 1 implies env_var(#[trigger] t[j]) is None by { assert(t[j] == names[j + 1]); }
            lemma_env_value_first(t, i - 1);
        }
    }
    pub proof fn lemma_env_value_none(names: Seq<&'static str>)
        requires forall|j: int| 0 <= j < names.len() ==> env_var(#[trigger] names[j]) is None,
        ensures env_value(names) is None,
        decreases names.len(),
    {
        if names.len() > 0 {
            let t = names.drop_first();
            assert forall|j: int| 0 <= j < t.len() implies env_var(#[trigger] t[j]) is None by { assert(t[j] == names[j + 1]); }
            lemma_env_value_none(t);
        }
    }
    /// what `env.iter().find_map(std::env::var_os)` computes: the first set variable in declaration order
    pub proof fn lemma_env_find_hit_val(names: Seq<&'static str>, b: OsString)
        requires exists|i: int| #[trigger] fm_hit(std::env::var_os::<&&'static str>, names.as_ref(), i, b),
        ensures env_value(names) == Some(b),
    {
        broadcast use axiom_env_lookup_str;
        let rem = names.as_ref();
        let i = choose|i: int| #[trigger] fm_hit(std::env::var_os::<&&'static str>, rem, i, b);
        assert(rem.len() == names.len());
        assert(*rem[i] == names[i]);
        assert(env_lookup::<&&'static str>(rem[i]) == Some(b));
        assert forall|j: int| 0 <= j < i implies env_var(#[trigger] names[j]) is None by {
            assert(fm_miss(std::env::var_os::<&&'static str>, rem, j));
            assert(*rem[j] == names[j]);
            assert(env_lookup::<&&'static str>(rem[j]) is None);
        }
        lemma_env_value_first(names, i);
    }
    pub proof fn lemma_env_find_hit(names: Seq<&'static str>)
        requires exists|i: int, b: OsString| #[trigger] fm_hit(std::env::var_os::<&&'static str>, names.as_ref(), i, b),
        ensures env_value(names) is Some,
    {
        let (i, b) = choose|i: int, b: OsString| #[trigger] fm_hit(std::env::var_os::<&&'static str>, names.as_ref(), i, b);
        lemma_env_find_hit_val(names, b);
    }
    pub proof fn lemma_env_find_miss(names: Seq<&'static str>)
        requires fm_none(std::env::var_os::<&&'static str>, names.as_ref()),
        ensures env_value(names) is None,
    {
        broadcast use axiom_env_lookup_str;
        let rem = names.as_ref();
        assert(rem.len() == names.len());
        assert forall|j: int| 0 <= j < names.len() implies env_var(#[trigger] names[j]) is None by {
            assert(fm_miss(std::env::var_os::<&&'static str>, rem, j));
            assert(*rem[j] == names[j]);
            assert(env_lookup::<&&'static str>(rem[j]) is None);
        }
        lemma_env_value_none(names);
    }
//@@ end

//@@ lemma
//@@ unit lemmas.utf8_offsets tags=C02,C04,C05
    pub proof fn lemma_boff_step(s: Seq<char>, k: int)
        requires 0 <= k < s.len(),
        ensures boff(s, k + 1) == boff(s, k) + encode_scalar(s[k] as u32).len(), boff(s, 0) == 0,
    {
        reveal(boff);
        assert(s.take(k + 1) =~= s.take(k).push(s[k]));
        encode_utf8_push(s.take(k), s[k]);
        assert(s.take(0) =~= Seq::<char>::empty());
    }

    /// the end of an encoded prefix is a char boundary of the whole encoding
    pub proof fn lemma_boundary(a: Seq<char>, b: Seq<char>)
        ensures is_char_boundary(encode_utf8(a + b), encode_utf8(a).len() as int),
        decreases a.len(),
    {
        encode_utf8_valid_utf8(a + b);
        if a.len() == 0 {
        } else {
            let c = a[0];
            let a1 = a.drop_first();
            assert((a + b).drop_first() =~= a1 + b);
            encode_utf8_first_scalar(a + b);
            encode_utf8_first_scalar(a);
            lemma_boundary(a1, b);
            let bytes = encode_utf8(a + b);
            assert(pop_first_scalar(bytes) =~= encode_utf8(a1 + b));
            assert(encode_utf8(a).len() == encode_scalar(c as u32).len() + encode_utf8(a1).len());
        }
    }

    pub proof fn lemma_split_at(s: Seq<char>, k: int)
        requires 0 <= k <= s.len(),
        ensures
            0 <= boff(s, k) <= encode_utf8(s).len(),
            is_char_boundary(encode_utf8(s), boff(s, k)),
            encode_utf8(s).subrange(boff(s, k), encode_utf8(s).len() as int) == encode_utf8(s.skip(k)),
            (boff(s, k) == encode_utf8(s).len()) == (k == s.len()),
    {
        reveal(boff);
        assert(s =~= s.take(k) + s.skip(k));
        encode_utf8_concat(s.take(k), s.skip(k));
        lemma_boundary(s.take(k), s.skip(k));
        assert(encode_utf8(s).subrange(boff(s, k), encode_utf8(s).len() as int) =~= encode_utf8(s.skip(k)));
        if k < s.len() {
            encode_utf8_first_scalar(s.skip(k));
        } else {
            assert(s.skip(k) =~= Seq::<char>::empty());
        }
    }

    pub proof fn lemma_str_eq(a: Seq<char>, b: Seq<char>)
        requires encode_utf8(a) == encode_utf8(b),
        ensures a == b,
    {
        encode_utf8_decode_utf8(a);
        encode_utf8_decode_utf8(b);
    }

    /// `ix + c.len_utf8()` is the offset of the next char and a legal start for `&short[..]`
    pub proof fn lemma_cluster_step(short: &String, k: int, ix: usize, c: char)
        requires 0 <= k < short@.len(), ix == boff(short@, k), c == short@[k],
        ensures
            ix + c.len_utf8() == boff(short@, k + 1),
            ix + c.len_utf8() <= usize::MAX,
            (k == 0) == (ix == 0),
            vstd::std_specs::core::IndexSpec::index_req(short, &(((ix + c.len_utf8()) as usize)..)),
    {
        broadcast use vstd::std_specs::range::group_range_axioms;
        axiom_string_bytes_fit(short);
        lemma_boff_step(short@, k);
        lemma_split_at(short@, k);
        lemma_split_at(short@, k + 1);
        lemma_split_at(short@, short@.len() as int);
        reveal(boff);
        assert(short@.take(short@.len() as int) =~= short@);
        axiom_string_index_req::<std::ops::RangeFrom<usize>>(short, &(((ix + c.len_utf8()) as usize)..));
        axiom_string_as_str(short);
        if k > 0 { lemma_boff_step(short@, k - 1); lemma_split_at(short@, k - 1); }
    }

    /// the slice from the offset of char k holds exactly the chars from k on
    pub proof fn lemma_cluster_rest(short: &String, k: int, rest: &str)
        requires
            0 <= k <= short@.len(),
            vstd::slice::SliceIndexSpec::index_postcondition(&((boff(short@, k) as usize)..), string_as_str(short), rest),
        ensures rest@ == short@.skip(k), os_from::<str>(rest) == os_of_chars(short@.skip(k)),
    {
        broadcast use vstd::std_specs::range::group_range_axioms;
        axiom_string_bytes_fit(short);
        lemma_split_at(short@, k);
        axiom_string_as_str(short);
        lemma_str_eq(rest@, short@.skip(k));
        axiom_os_from_str(rest);
    }

    /// consequences State::construct uses: something is appended, and never a PosWord
    pub broadcast proof fn lemma_cluster_shape(all: Seq<Arg>, r: Option<Message>, base: int, short: String, fl: Seq<char>, ar: Seq<char>, os: OsString)
        requires #[trigger] cluster_post(all.skip(base), r, base, short, fl, ar, os), short@.len() > 0, 0 <= base <= all.len(),
        ensures all.len() > base, forall|j: int| base <= j < all.len() ==> !(#[trigger] all[j] is PosWord),
    {
        let new = all.skip(base);
        assert(new.len() > 0);
        assert forall|j: int| base <= j < all.len() implies !(#[trigger] all[j] is PosWord) by {
            assert(all[j] == new[j - base]);
        }
    }
//@@ end
}

pub mod real {
    use super::spec::*;
    use super::lemmas::*;
    broadcast use {super::lemmas::ledger, super::prelude::axiom_peq_char, super::prelude::axiom_iter_elems_vec_ref, super::lemmas::lemma_cluster_shape};
    use super::*;
    use super::prelude::*;

//@@ type src/args.rs | enum ItemState
//@@ unit args.ItemState tags= derive_copy derive_eq
//@@ end

//@@ fn src/args.rs | impl ItemState | fn parsed
//@@ unit args.ItemState.parsed tags=C05,C07
//@@ ret r
//@@ spec
        ensures r == !present(*self), r == (self is Parsed) // #parsed_iff_Parsed
//@@ end

//@@ fn src/args.rs | impl ItemState | fn present
//@@ unit args.ItemState.present tags=C05,C07
//@@ ret r
//@@ spec
        ensures r == present(*self), r == !(self is Parsed) // #present_iff_not_Parsed
//@@ end


//@@ type src/arg.rs | enum Arg
//@@ unit arg.Arg tags=
//@@ end

//@@ type src/args.rs | mod inner | struct State
//@@ unit args.State tags= derive_clone
//@@ end

//@@ type src/args.rs | mod inner | struct ArgsIter
//@@ unit args.ArgsIter tags=
//@@ end

//@@ type src/meta_help.rs | struct Metavar
//@@ unit meta_help.Metavar tags= derive_copy
//@@ end

//@@ type src/item.rs | enum ShortLong
//@@ unit item.ShortLong tags= derive_copy
//@@ end

//@@ type src/item.rs | enum Item
//@@ unit item.Item tags= derive_clone
//@@ end

//@@ type src/meta.rs | enum Meta
//@@ unit meta.Meta tags=
//@@ end

//@@ type src/info.rs | struct Info
//@@ unit info.Info tags=
//@@ end

//@@ type src/params.rs | struct NamedArg
//@@ unit params.NamedArg tags= derive_clone
//@@ end

//@@ type src/error.rs | struct MissingItem
//@@ unit error.MissingItem tags=
//@@ end

//@@ type src/error.rs | enum ParseFailure
//@@ unit error.ParseFailure tags=
//@@ end

//@@ type src/error.rs | enum Message
//@@ unit error.Message tags=
//@@ end

//@@ type src/error.rs | struct Error
//@@ unit error.Error tags=
//@@ end

//@@ fn src/args.rs | mod inner | impl State | fn present
//@@ unit args.State.present tags=C05
//@@ ret r
//@@ spec
        ensures r == (if ix < self.item_state.len() { Some(!(self.item_state[ix as int] is Parsed)) } else { None }) // #present_spec
//@@ end

//@@ fn src/args.rs | mod inner | impl State | fn depth
//@@ unit args.State.depth tags=C08
//@@ ret r
//@@ spec
        ensures r == self.path.len()
//@@ end

//@@ fn src/args.rs | mod inner | impl State | fn remove
//@@ unit args.State.remove tags=C05,C01,C04
//@@ spec
        requires old(self).wf(),
        ensures
            final(self).wf(), // #preserves_wf
            final(self).items == old(self).items, // #frame_items
            final(self).scope == old(self).scope, // #frame_scope
            final(self).path == old(self).path, // #frame_path
            final(self).comp_eq(*old(self)), // #frame_comp
            old(self).avail(index as int) ==> {
                &&& final(self).item_state@ == old(self).item_state@.update(index as int, ItemState::Parsed) // #marks_exactly_index
                &&& final(self).remaining == old(self).remaining - 1 // #remaining_decremented
                &&& final(self).current == Some(index) // #current_set
            },
            !old(self).avail(index as int) ==> *final(self) == *old(self), // #noop_when_unavailable
//@@ end

//@@ fn src/args.rs | mod inner | impl State | fn get
//@@ unit args.State.get tags=C05,C01,C07
//@@ ret r
//@@ spec
        requires self.wf(),
        ensures
            self.avail(ix as int) ==> r == Some(&self.items[ix as int]), // #some_iff_available
            !self.avail(ix as int) ==> r is None, // #none_when_unavailable
//@@ end

//@@ fn src/args.rs | mod inner | impl Iterator for ArgsIter | fn next
//@@ unit args.ArgsIter.next tags=C01,C03,C05,C04 inherent loops=1
//@@ ret r
//@@ spec
        requires old(self).wf(),
        ensures
            final(self).wf(), // #preserves_iter_wf
            final(self).args == old(self).args, // #frame_state
            r matches Some(p) ==> old(self).cur <= p.0, // #yields_at_or_after_cursor
            r matches Some(p) ==> old(self).args.avail(p.0 as int), // #yields_only_available
            r matches Some(p) ==> *p.1 == old(self).args.items[p.0 as int], // #yields_the_item_at_ix
            r matches Some(p) ==> forall|j: int| old(self).cur <= j < p.0 ==> !old(self).args.avail(j), // #yields_leftmost
            r matches Some(p) ==> final(self).cur == p.0 + 1, // #cursor_advances_past
            r is None ==> forall|j: int| old(self).cur <= j ==> !old(self).args.avail(j), // #none_means_nothing_available
//@@ loop 1
            invariant
                self.args == old(self).args,
                self.wf(),
                old(self).cur <= self.cur,
                forall|j: int| old(self).cur <= j < self.cur ==> !self.args.avail(j),
            decreases self.args.scope.end as int - self.cur as int,
//@@ end


//@@ fn src/args.rs | mod inner | impl State | fn items_iter
//@@ unit args.State.items_iter tags=C01,C05
//@@ ret r
//@@ spec
        requires self.wf(),
        ensures r.wf(), r.args == self, r.cur == self.scope.start, // #iterates_scope_from_start
//@@ end

//@@ fn src/args.rs | mod inner | impl State | fn len
//@@ unit args.State.len tags=C05,C01
//@@ ret r
//@@ spec
        ensures r == self.remaining,
//@@ end

//@@ fn src/args.rs | mod inner | impl State | fn is_empty
//@@ unit args.State.is_empty tags=C05
//@@ ret r
//@@ spec
        ensures r == (self.remaining == 0),
//@@ end

//@@ fn src/args.rs | mod inner | impl State | fn scope
//@@ unit args.State.scope tags=C05
//@@ ret r
//@@ spec
        ensures r == self.scope,
//@@ end

//@@ fn src/params.rs | impl NamedArg | fn matches_arg
//@@ unit params.NamedArg.matches_arg tags=C02,C09,C01
//@@ ret r
//@@ spec
        ensures r == self.matches_spec(*arg, adjacent), // #match_table
//@@ end

// T5: std's provided `Iterator::find` / `find_map`, written out as the std default loop over `next`
impl<'a> ArgsIter<'a> {
    pub fn find<P: Fn(&(usize, &'a Arg)) -> bool>(&mut self, predicate: P) -> (r: Option<(usize, &'a Arg)>)
        requires
            old(self).wf(),
            forall|x: (usize, &'a Arg)| predicate.requires((&x,)),
        ensures
            final(self).wf(),
            final(self).args == old(self).args,
            r matches Some(q) ==> {
                &&& old(self).cur <= q.0
                &&& old(self).args.avail(q.0 as int)
                &&& *q.1 == old(self).args.items[q.0 as int]
                &&& predicate.ensures((&q,), true)
                &&& forall|j: int| old(self).cur <= j < q.0 && #[trigger] old(self).args.avail(j)
                        ==> predicate.ensures((&(j as usize, &old(self).args.items[j]),), false)
            },
            r is None ==> forall|j: int| old(self).cur <= j && #[trigger] old(self).args.avail(j)
                        ==> predicate.ensures((&(j as usize, &old(self).args.items[j]),), false),
    {
        loop
            invariant
                self.wf(),
                self.args == old(self).args,
                old(self).cur <= self.cur,
                forall|x: (usize, &'a Arg)| predicate.requires((&x,)),
                forall|j: int| old(self).cur <= j < self.cur && #[trigger] self.args.avail(j)
                        ==> predicate.ensures((&(j as usize, &self.args.items[j]),), false),
            decreases self.args.scope.end as int + 1 - self.cur as int,
        {
            match self.next() {
                Some(x) => {
                    if predicate(&x) {
                        return Some(x);
                    }
                }
                None => return None,
            }
        }
    }
}

//@@ fn src/args.rs | impl State | fn take_flag
//@@ unit args.State.take_flag tags=C01,C03,C05,C09,C10
//@@ ret r
//@@ spec
        requires old(self).wf(),
        ensures
            final(self).wf(), // #preserves_wf
            r == exists|i: int| #[trigger] old(self).avail(i) && named.matches_spec(old(self).items[i], false), // #found_iff_exists
            !r ==> *final(self) == *old(self), // #false_leaves_state_unchanged
            r ==> exists|i: int| {
                &&& #[trigger] old(self).first_match(*named, false, i) // #consumes_leftmost_match
                &&& final(self).item_state@ == old(self).consumed1(i)
                &&& final(self).remaining == old(self).remaining - 1
                &&& final(self).current == Some(i as usize)
            },
            final(self).items == old(self).items && final(self).scope == old(self).scope && final(self).path == old(self).path && final(self).comp_eq(*old(self)), // #frame
//@@ insert after 1 `|arg`
: &(usize, &Arg)
//@@ insert after 1 `|arg|`
-> (b: bool) ensures b == named.matches_spec(*arg.1, false) {
//@@ insert after 1 `named.matches_arg(arg.1, false)`
}
//@@ insert before 1 `self.remove(ix);`
proof { assert(old(self).first_match(*named, false, ix as int)); }
//@@ end


//@@ fn src/args.rs | impl State | fn take_arg
//@@ unit args.State.take_arg tags=C01,C02,C03,C05,C09,C14
//@@ ret r
//@@ spec
        requires old(self).wf(),
        ensures
            final(self).wf(), // #preserves_wf
            final(self).items == old(self).items && final(self).scope == old(self).scope && final(self).path == old(self).path && final(self).comp_eq(*old(self)), // #frame
            r matches Ok(None) ==> old(self).no_match(*named, adjacent) && *final(self) == *old(self), // #absent_leaves_state_unchanged
            (r is Ok && r->Ok_0 is None) == old(self).no_match(*named, adjacent), // #none_iff_no_matching_name
            r matches Ok(Some(v)) ==> exists|k: int| {
                &&& #[trigger] old(self).first_match(*named, adjacent, k) // #key_is_leftmost_match
                &&& old(self).avail(k + 1) // #value_is_next_item
                &&& value_word(old(self).items[k + 1]) == Some(v) // #value_bytes_equal_item
                &&& final(self).item_state@ == old(self).item_state@.update(k, ItemState::Parsed).update(k + 1, ItemState::Parsed) // #marks_exactly_key_and_value
                &&& final(self).remaining == old(self).remaining - 2
                &&& final(self).current == Some((k + 1) as usize)
            },
            r matches Err(e) ==> exists|k: int| {
                &&& #[trigger] old(self).first_match(*named, adjacent, k) // #error_only_when_name_present
                &&& !(old(self).avail(k + 1) && value_word(old(self).items[k + 1]) is Some) // #error_only_when_value_missing
                &&& is_no_argument(e, k, metavar) // #error_is_NoArgument_at_key
                &&& *final(self) == *old(self) // #error_leaves_state_unchanged
            },
//@@ insert after 1 `|arg`
: &(usize, &Arg)
//@@ insert after 1 `|arg|`
-> (b: bool) ensures b == named.matches_spec(*arg.1, adjacent) {
//@@ insert after 1 `named.matches_arg(arg.1, adjacent)`
}
//@@ insert before 1 `let val_ix`
proof { assert(old(self).first_match(*named, adjacent, key_ix as int)); }
//@@ end

// T5: std's provided `Iterator::find_map`, written out as the std default loop over `next`
impl<'a> ArgsIter<'a> {
    pub fn find_map<B, F: Fn((usize, &'a Arg)) -> Option<B>>(&mut self, f: F) -> (r: Option<B>)
        requires
            old(self).wf(),
            forall|x: (usize, &'a Arg)| f.requires((x,)),
        ensures
            final(self).wf(),
            final(self).args == old(self).args,
            r matches Some(b) ==> exists|k: int| {
                &&& old(self).cur <= k
                &&& #[trigger] old(self).args.avail(k)
                &&& f.ensures(((k as usize, &old(self).args.items[k]),), Some(b))
                &&& forall|j: int| old(self).cur <= j < k && #[trigger] old(self).args.avail(j)
                        ==> f.ensures(((j as usize, &old(self).args.items[j]),), None)
            },
            r is None ==> forall|j: int| old(self).cur <= j && #[trigger] old(self).args.avail(j)
                        ==> f.ensures(((j as usize, &old(self).args.items[j]),), None),
    {
        loop
            invariant
                self.wf(),
                self.args == old(self).args,
                old(self).cur <= self.cur,
                forall|x: (usize, &'a Arg)| f.requires((x,)),
                forall|j: int| old(self).cur <= j < self.cur && #[trigger] self.args.avail(j)
                        ==> f.ensures(((j as usize, &self.args.items[j]),), None),
            decreases self.args.scope.end as int + 1 - self.cur as int,
        {
            match self.next() {
                Some(x) => {
                    if let Some(b) = f(x) {
                        return Some(b);
                    }
                }
                None => return None,
            }
        }
    }
}

//@@ fn src/args.rs | impl State | fn take_positional_word
//@@ unit args.State.take_positional_word tags=C01,C03,C05,C09
//@@ ret r
//@@ spec
        requires old(self).wf(),
        ensures
            final(self).wf(), // #preserves_wf
            final(self).items == old(self).items && final(self).scope == old(self).scope && final(self).path == old(self).path && final(self).comp_eq(*old(self)), // #frame
            r matches Ok(t) ==> {
                &&& old(self).first_pos_word(t.0 as int) // #takes_first_word_skipping_named_items
                &&& pos_word(old(self).items[t.0 as int]) == Some((t.1, t.2)) // #strict_iff_after_double_dash_and_word_verbatim
                &&& final(self).item_state@ == old(self).consumed1(t.0 as int) // #marks_exactly_it
                &&& final(self).remaining == old(self).remaining - 1
                &&& final(self).current == Some(t.0)
            },
            r matches Err(e) ==> {
                &&& forall|j: int| #[trigger] old(self).avail(j) ==> pos_word(old(self).items[j]) is None // #error_only_when_no_word_available
                &&& *final(self) == *old(self) // #error_leaves_state_unchanged
                &&& is_missing_positional(e, metavar, old(self).scope) // #error_is_missing_positional
            },
//@@ closure 1 `|(ix, arg)|` as p: (usize, &Arg)
-> (o: Option<(usize, bool, &OsString)>)
    ensures
        o is Some == pos_word(*p.1) is Some,
        o matches Some(t) ==> t.0 == p.0 && pos_word(*p.1) == Some((t.1, *t.2)),
//@@ end

//@@ fn src/args.rs | impl State | fn take_cmd
//@@ unit args.State.take_cmd tags=C01,C05,C08,C09
//@@ ret r
//@@ spec
        requires old(self).wf(),
        ensures
            final(self).wf(), // #preserves_wf
            final(self).items == old(self).items && final(self).scope == old(self).scope && final(self).path == old(self).path && final(self).comp_eq(*old(self)), // #frame
            r == (exists|k: int| #[trigger] old(self).first_avail(k) && cmd_matches(old(self).items[k], word)), // #true_iff_first_available_item_is_the_name
            r ==> exists|k: int| {
                &&& #[trigger] old(self).first_avail(k) // #name_must_be_first_unclaimed_item
                &&& cmd_matches(old(self).items[k], word) // #exact_text_not_posword_not_eq_form
                &&& final(self).item_state@ == old(self).consumed1(k) // #marks_exactly_it
                &&& final(self).remaining == old(self).remaining - 1
                &&& final(self).current == Some(k as usize)
            },
            !r ==> final(self).same_but_current(*old(self)) && final(self).current is None, // #failure_leaves_ledger_unchanged
//@@ insert before 1 `if w == word {`
proof { axiom_os_eq_obeys(); assert(old(self).first_avail(ix as int)); }
//@@ end

//@@ fn src/args.rs | mod inner | impl State | fn conflict
//@@ unit args.State.conflict tags=C07
//@@ ret r
//@@ spec
        requires self.wf(),
        ensures
            r matches Some(p) ==> self.first_avail(p.0 as int) && self.item_state[p.0 as int] == ItemState::Conflict(p.1), // #first_available_item_is_conflict
            r is None ==> forall|k: int| #[trigger] self.first_avail(k) ==> !(self.item_state[k] is Conflict), // #none_iff_first_available_not_conflict
//@@ end


//@@ fn src/error.rs | impl Message | fn can_catch
//@@ unit error.Message.can_catch tags=C06,C09,C01
//@@ ret r
//@@ spec
        ensures r == catchable(*self), // #absence_classes_are_catchable_invalid_are_final
//@@ end

//@@ fn src/error.rs | impl Message | fn combine_with
//@@ unit error.Message.combine_with tags=C10,C07,C06
//@@ ret r
//@@ spec
        ensures
            self is ParseFailure ==> r == self, // #final_output_on_left_wins
            !(self is ParseFailure) && other is ParseFailure ==> r == other, // #final_output_on_right_wins
            self is Missing && other is Missing ==> r is Missing && r->Missing_0@ == self->Missing_0@ + other->Missing_0@, // #missing_lists_concatenate_in_order
            !(self is ParseFailure) && !(other is ParseFailure) && !(self is Missing && other is Missing)
                ==> r == (if catchable(self) { other } else { self }), // #earliest_final_error_wins
//@@ end

//@@ fn src/error.rs | impl Error | fn combine_with
//@@ unit error.Error.combine_with tags=C10,C07
//@@ ret r
//@@ spec
        ensures combined(self.0, other.0, r.0), // #delegates_to_Message_combine_with
//@@ end

//@@ fn src/error.rs | impl ParseFailure | fn exit_code
//@@ unit error.ParseFailure.exit_code tags=C11
//@@ ret r
//@@ spec
        ensures
            (self is Stdout || self is Completion) ==> r == 0, // #stdout_and_completion_exit_0
            self is Stderr ==> r == 1, // #stderr_exits_1
//@@ end


// The trait every combinator implements.  Signature of `eval` as in src/lib.rs (checked by the extractor);
// `pwf` (children and user closures are total) and `rel` (relational denotation) are ghost.
pub trait Parser<T> {
    spec fn pwf(&self) -> bool;
    spec fn rel(&self, pre: State, r: Result<T, Error>, post: State) -> bool;
    fn eval(&self, args: &mut State) -> (r: Result<T, Error>)
        requires
            self.pwf(),
            old(args).wf(),
        ensures
            self.rel(*old(args), r, *final(args)), // #refines_rel
            step(*old(args), *final(args)), // #step
    ;
    fn meta(&self) -> Meta;
}

//@@ fn src/structs.rs | fn parse_option
//@@ unit structs.parse_option tags=C01,C04,C05,C06,C20
//@@ ret r
//@@ spec
        requires
            parser.pwf(),
            old(args).wf(),
        ensures
            opt_rel(*parser, *old(args), *old(len), catch, r, *final(args), *final(len)), // #refines_opt_rel
            step(*old(args), *final(args)), // #step
            r matches Ok(Some(_)) ==> *final(len) < *old(len) && *final(len) == final(args).remaining, // #value_only_if_consumed
            !(r matches Ok(Some(_))) ==> *final(len) == *old(len),
//@@ end


//@@ type src/structs.rs | struct ParseOptional
//@@ unit structs.ParseOptional tags=
//@@ end

//@@ fn src/structs.rs | impl Parser for ParseOptional | fn eval
//@@ unit structs.ParseOptional.eval tags=C06,C01,C05
//@@ members
    open spec fn pwf(&self) -> bool { self.inner.pwf() }
    open spec fn rel(&self, pre: State, r: Result<Option<T>, Error>, post: State) -> bool {
        exists|l: usize| #[trigger] opt_rel(self.inner, pre, usize::MAX, self.catch, r, post, l)
    }
//@@ also fn meta
//@@ end

//@@ type src/structs.rs | struct ParseGuard
//@@ unit structs.ParseGuard tags=
//@@ end

//@@ fn src/structs.rs | impl Parser for ParseGuard | fn eval
//@@ unit structs.ParseGuard.eval tags=C06
//@@ members
    open spec fn pwf(&self) -> bool {
        self.inner.pwf() && forall|t: &T| #[trigger] self.check.requires((t,))
    }
    /// the inner outcome is passed through; a value the check rejects becomes the *final* error
    /// GuardFailed(position of the item, declared message); the state is what the inner parser left
    open spec fn rel(&self, pre: State, r: Result<T, Error>, post: State) -> bool {
        exists|ri: Result<T, Error>| #[trigger] self.inner.rel(pre, ri, post) && match ri {
            Ok(t) => exists|b: bool| #[trigger] self.check.ensures((&t,), b)
                && (if b { r == Ok::<T, Error>(t) } else { r == Err::<T, Error>(Error(Message::GuardFailed(post.current, self.message))) }),
            Err(e) => r == Err::<T, Error>(e),
        }
    }
//@@ also fn meta
//@@ end

//@@ type src/structs.rs | struct ParseMap
//@@ unit structs.ParseMap tags=
//@@ end

//@@ fn src/structs.rs | impl Parser for ParseMap | fn eval
//@@ unit structs.ParseMap.eval tags=C06
//@@ members
    open spec fn pwf(&self) -> bool {
        self.inner.pwf() && forall|t: T| #[trigger] self.map_fn.requires((t,))
    }
    open spec fn rel(&self, pre: State, r: Result<R, Error>, post: State) -> bool {
        exists|ri: Result<T, Error>| #[trigger] self.inner.rel(pre, ri, post) && match ri {
            Ok(t) => r is Ok && self.map_fn.ensures((t,), r->Ok_0),
            Err(e) => r == Err::<R, Error>(e),
        }
    }
//@@ also fn meta
//@@ end


//@@ type src/structs.rs | struct ParseWith
//@@ unit structs.ParseWith tags=
//@@ end

//@@ fn src/structs.rs | impl Parser for ParseWith | fn eval
//@@ unit structs.ParseWith.eval tags=C06
//@@ members
    open spec fn pwf(&self) -> bool {
        self.inner.pwf() && forall|t: T| #[trigger] self.parse_fn.requires((t,))
    }
    /// a value the user's `parse` function rejects becomes the *final* error ParseFailed(position, e.to_string())
    open spec fn rel(&self, pre: State, r: Result<R, Error>, post: State) -> bool {
        exists|ri: Result<T, Error>| #[trigger] self.inner.rel(pre, ri, post) && match ri {
            Ok(t) => exists|pr: Result<R, E>| #[trigger] self.parse_fn.ensures((t,), pr) && match pr {
                Ok(v) => r == Ok::<R, Error>(v),
                Err(e) => exists|s: String| call_ensures(E::to_string, (&e,), s) && r == Err::<R, Error>(Error(Message::ParseFailed(post.current, s))),
            },
            Err(e) => r == Err::<R, Error>(e),
        }
    }
//@@ also fn meta
//@@ end

//@@ type src/structs.rs | struct ParseFallback
//@@ unit structs.ParseFallback tags=
//@@ end

//@@ fn src/structs.rs | impl Parser for ParseFallback | fn eval
//@@ unit structs.ParseFallback.eval tags=C05,C06,C20,C14
//@@ members
    open spec fn pwf(&self) -> bool { self.inner.pwf() }
    /// inner success: its value and its state; inner failure: the default iff the error is catchable, and
    /// then the state is the pre-attempt state; any other failure is returned unchanged with the pre-attempt state
    open spec fn rel(&self, pre: State, r: Result<T, Error>, post: State) -> bool {
        exists|ri: Result<T, Error>, mid: State| #[trigger] self.inner.rel(pre, ri, mid) && step(pre, mid) && match ri {
            Ok(v) => r == Ok::<T, Error>(v) && post == mid,
            Err(e) => restored(pre, mid, post) && (if catchable(e.0) { r is Ok && call_ensures(T::clone, (&self.value,), r->Ok_0) } else { r == Err::<T, Error>(e) }),
        }
    }
//@@ also fn meta external_body
//@@ end

//@@ type src/structs.rs | struct ParseFallbackWith
//@@ unit structs.ParseFallbackWith tags=
//@@ end

//@@ fn src/structs.rs | impl Parser for ParseFallbackWith | fn eval
//@@ unit structs.ParseFallbackWith.eval tags=C05,C06,C20,C14
//@@ members
    open spec fn pwf(&self) -> bool { self.inner.pwf() && self.fallback.requires(()) }
    open spec fn rel(&self, pre: State, r: Result<T, Error>, post: State) -> bool {
        exists|ri: Result<T, Error>, mid: State| #[trigger] self.inner.rel(pre, ri, mid) && step(pre, mid) && match ri {
            Ok(v) => r == Ok::<T, Error>(v) && post == mid,
            Err(e) => restored(pre, mid, post) && (if catchable(e.0) {
                    exists|fr: Result<T, E>| #[trigger] self.fallback.ensures((), fr) && match fr {
                        Ok(v) => r == Ok::<T, Error>(v),
                        Err(fe) => exists|s: String| call_ensures(E::to_string, (&fe,), s) && r == Err::<T, Error>(Error(Message::PureFailed(s))),
                    }
                } else { r == Err::<T, Error>(e) }),
        }
    }
//@@ also fn meta external_body
//@@ end


//@@ type src/structs.rs | struct ParsePure
//@@ unit structs.ParsePure tags=
//@@ end

//@@ fn src/structs.rs | impl Parser for ParsePure | fn eval
//@@ unit structs.ParsePure.eval tags=C05
//@@ members
    open spec fn pwf(&self) -> bool { true }
    /// consumes nothing, always succeeds
    open spec fn rel(&self, pre: State, r: Result<T, Error>, post: State) -> bool {
        r is Ok && call_ensures(T::clone, (&self.0,), r->Ok_0) && post.same_but_current(pre) && post.current is None
    }
//@@ also fn meta
//@@ end

//@@ type src/structs.rs | struct ParsePureWith
//@@ unit structs.ParsePureWith tags=
//@@ attr
#[verifier::reject_recursive_types(T)]
#[verifier::reject_recursive_types(E)]
//@@ end

//@@ fn src/structs.rs | impl Parser for ParsePureWith | fn eval
//@@ unit structs.ParsePureWith.eval tags=C05
//@@ members
    open spec fn pwf(&self) -> bool { self.0.requires(()) }
    open spec fn rel(&self, pre: State, r: Result<T, Error>, post: State) -> bool {
        post == pre && exists|fr: Result<T, E>| #[trigger] self.0.ensures((), fr) && match fr {
            Ok(v) => r == Ok::<T, Error>(v),
            Err(fe) => exists|s: String| call_ensures(E::to_string, (&fe,), s) && r == Err::<T, Error>(Error(Message::PureFailed(s))),
        }
    }
//@@ also fn meta
//@@ end

//@@ type src/structs.rs | struct ParseFail
//@@ unit structs.ParseFail tags=
//@@ end

//@@ fn src/structs.rs | impl Parser for ParseFail | fn eval
//@@ unit structs.ParseFail.eval tags=C05
//@@ members
    open spec fn pwf(&self) -> bool { true }
    open spec fn rel(&self, pre: State, r: Result<T, Error>, post: State) -> bool {
        r == Err::<T, Error>(Error(Message::ParseFail(self.field1))) && post.same_but_current(pre) && post.current is None
    }
//@@ also fn meta
//@@ end

//@@ type src/structs.rs | struct ParseHide
//@@ unit structs.ParseHide tags=
//@@ end

//@@ fn src/structs.rs | impl Parser for ParseHide | fn eval
//@@ unit structs.ParseHide.eval tags=C05,C12,C14,C20
//@@ members
    open spec fn pwf(&self) -> bool { self.inner.pwf() }
    /// same outcome and state as the inner parser, except that a Missing(..) error forgets which items were missing
    open spec fn rel(&self, pre: State, r: Result<T, Error>, post: State) -> bool {
        same_candidates(pre, post) // C14: whatever the hidden parser would offer is dropped
        && exists|ri: Result<T, Error>, pre2: State, post2: State| #[trigger] self.inner.rel(pre2, ri, post2) && eqc(pre, pre2) && eqc(post2, post) && step(pre2, post2) && match ri {
            Ok(v) => r == Ok::<T, Error>(v),
            Err(e) => if e.0 is Missing { r is Err && r->Err_0.0 is Missing && r->Err_0.0->Missing_0@ == Seq::<MissingItem>::empty() } else { r == Err::<T, Error>(e) },
        }
    }
//@@ also fn meta
//@@ end

//@@ type src/structs.rs | struct ParseUsage
//@@ unit structs.ParseUsage tags=
//@@ end

//@@ fn src/structs.rs | impl Parser for ParseUsage | fn eval
//@@ unit structs.ParseUsage.eval tags=C05,C12
//@@ members
    open spec fn pwf(&self) -> bool { self.inner.pwf() }
    open spec fn rel(&self, pre: State, r: Result<T, Error>, post: State) -> bool { self.inner.rel(pre, r, post) }
//@@ also fn meta external_body
//@@ end

//@@ type src/structs.rs | struct ParseGroupHelp
//@@ unit structs.ParseGroupHelp tags=
//@@ end

//@@ fn src/structs.rs | impl Parser for ParseGroupHelp | fn eval
//@@ unit structs.ParseGroupHelp.eval tags=C05,C12,C20
//@@ members
    open spec fn pwf(&self) -> bool { self.inner.pwf() }
    open spec fn rel(&self, pre: State, r: Result<T, Error>, post: State) -> bool {
        exists|pre2: State, post2: State| #[trigger] self.inner.rel(pre2, r, post2) && eqc(pre, pre2) && eqc(post2, post) && step(pre2, post2)
    }
//@@ also fn meta external_body
//@@ end

//@@ type src/buffer.rs | struct MetaInfo
//@@ unit buffer.MetaInfo tags=
//@@ end

//@@ type src/structs.rs | struct ParseWithGroupHelp
//@@ unit structs.ParseWithGroupHelp tags=
//@@ end

//@@ fn src/structs.rs | impl Parser for ParseWithGroupHelp | fn eval
//@@ unit structs.ParseWithGroupHelp.eval tags=C05,C12
//@@ members
    open spec fn pwf(&self) -> bool { self.inner.pwf() }
    open spec fn rel(&self, pre: State, r: Result<T, Error>, post: State) -> bool { self.inner.rel(pre, r, post) }
//@@ also fn meta external_body
//@@ end


//@@ type src/structs.rs | struct ParseSome
//@@ unit structs.ParseSome tags=
//@@ end

//@@ fn src/structs.rs | impl Parser for ParseSome | fn eval
//@@ unit structs.ParseSome.eval tags=C01,C04,C06 loops=1
//@@ members
    open spec fn pwf(&self) -> bool { self.inner.pwf() }
    /// values of successive rounds, in the order the rounds ran; fails with its own (catchable) message iff there were none;
    /// a final error of any round is returned unchanged
    open spec fn rel(&self, pre: State, r: Result<Vec<T>, Error>, post: State) -> bool {
        exists|vals: Seq<T>, last: Result<Option<T>, Error>, mid: State, lenm: usize, l2: usize|
            #![trigger iter_rel(self.inner, self.catch, pre, usize::MAX, vals, mid, lenm), opt_rel(self.inner, mid, lenm, self.catch, last, post, l2)]
            iter_rel(self.inner, self.catch, pre, usize::MAX, vals, mid, lenm)
            && opt_rel(self.inner, mid, lenm, self.catch, last, post, l2)
            && match last {
                Ok(Some(_)) => false,
                Ok(None) => if vals.len() == 0 { r == Err::<Vec<T>, Error>(Error(Message::ParseSome(self.message))) } else { r is Ok && r->Ok_0@ == vals },
                Err(e) => r == Err::<Vec<T>, Error>(e),
            }
    }
//@@ preloop 1
let ghost mut g_args = *args; let ghost mut g_len = len; let ghost mut g_res = res@;
//@@ loop 1
            invariant_except_break
                g_args == *args, g_len == len, g_res == res@,
            invariant
                self.inner.pwf(),
                old(args).wf(),
                g_args.wf(),
                step(*old(args), g_args),
                iter_rel(self.inner, self.catch, *old(args), usize::MAX, g_res, g_args, g_len),
            ensures
                g_res == res@,
                step(g_args, *args),
                exists|l2: usize| opt_rel(self.inner, g_args, g_len, self.catch, Ok::<Option<T>, Error>(None), *args, l2), // #loop_ends_only_when_a_round_yields_nothing
            decreases len,
//@@ insert after 1 `res.push(val);`
proof {
    lemma_iter_push(self.inner, self.catch, *old(args), usize::MAX, g_res, g_args, g_len, res@.last(), *args, len);
    lemma_step_trans(*old(args), g_args, *args);
    g_args = *args; g_len = len; g_res = res@;
}
//@@ insert before 1 `if res.is_empty() {`
proof { lemma_step_trans(*old(args), g_args, *args); }
//@@ also fn meta
//@@ end


//@@ type src/structs.rs | struct ParseCount
//@@ unit structs.ParseCount tags=
//@@ end

//@@ fn src/structs.rs | impl Parser for ParseCount | fn eval
//@@ unit structs.ParseCount.eval tags=C01,C04,C06 loops=1
//@@ members
    open spec fn pwf(&self) -> bool { self.inner.pwf() }
    /// number of successful rounds; stops after a round that did not change the number of remaining items;
    /// a final error of any round is returned unchanged (never caught: catch = false)
    open spec fn rel(&self, pre: State, r: Result<usize, Error>, post: State) -> bool {
        ||| exists|vals: Seq<T>, lenm: usize| #[trigger] iter_rel(self.inner, false, pre, usize::MAX, vals, post, lenm)
                && vals.len() > 0 && r == Ok::<usize, Error>(vals.len() as usize)
        ||| exists|vals: Seq<T>, last: Result<Option<T>, Error>, mid: State, lenm: usize, l2: usize|
            #![trigger iter_rel(self.inner, false, pre, usize::MAX, vals, mid, lenm), opt_rel(self.inner, mid, lenm, false, last, post, l2)]
            iter_rel(self.inner, false, pre, usize::MAX, vals, mid, lenm)
            && opt_rel(self.inner, mid, lenm, false, last, post, l2)
            && match last {
                Ok(Some(_)) => false,
                Ok(None) => r == Ok::<usize, Error>(vals.len() as usize),
                Err(e) => r == Err::<usize, Error>(e),
            }
    }
//@@ preloop 1
let ghost mut g_args = *args; let ghost mut g_len = len; let ghost mut g_vals = Seq::<T>::empty();
//@@ loop 1
            invariant_except_break
                g_args == *args, g_len == len,
            invariant
                self.inner.pwf(),
                old(args).wf(),
                g_args.wf(),
                step(*old(args), g_args),
                iter_rel(self.inner, false, *old(args), usize::MAX, g_vals, g_args, g_len),
                g_vals.len() == res,
                res as int + g_len as int <= usize::MAX as int,
            ensures
                step(g_args, *args),
                (exists|l2: usize| opt_rel(self.inner, g_args, g_len, false, Ok::<Option<T>, Error>(None), *args, l2)) || (res > 0 && g_args == *args), // #loop_ends_only_when_a_round_yields_nothing_or_consumes_nothing
            decreases len,
//@@ insert before 1 `res += 1;`
proof {
    let v = choose|v: T| opt_rel(self.inner, g_args, g_len, false, Ok::<Option<T>, Error>(Some(v)), *args, len);
    lemma_iter_push(self.inner, false, *old(args), usize::MAX, g_vals, g_args, g_len, v, *args, len);
    lemma_step_trans(*old(args), g_args, *args);
    g_args = *args; g_len = len; g_vals = g_vals.push(v);
}
//@@ insert before 1 `Ok(res)`
proof { lemma_step_trans(*old(args), g_args, *args); }
//@@ also fn meta
//@@ end


//@@ type src/structs.rs | struct ParseLast
//@@ unit structs.ParseLast tags=
//@@ end

//@@ fn src/structs.rs | impl Parser for ParseLast | fn eval
//@@ unit structs.ParseLast.eval tags=C01,C04,C06 loops=1
//@@ members
    open spec fn pwf(&self) -> bool { self.inner.pwf() }
    /// the value of the last successful round; with no successful round the inner parser's own outcome (its error);
    /// a final error of any round is returned unchanged
    open spec fn rel(&self, pre: State, r: Result<T, Error>, post: State) -> bool {
        ||| exists|vals: Seq<T>, lenm: usize| #[trigger] iter_rel(self.inner, false, pre, usize::MAX, vals, post, lenm)
                && vals.len() > 0 && r == Ok::<T, Error>(vals.last())
        ||| exists|vals: Seq<T>, last: Result<Option<T>, Error>, mid: State, lenm: usize, l2: usize, pl: State|
            #![trigger iter_rel(self.inner, false, pre, usize::MAX, vals, mid, lenm), opt_rel(self.inner, mid, lenm, false, last, pl, l2)]
            iter_rel(self.inner, false, pre, usize::MAX, vals, mid, lenm)
            && opt_rel(self.inner, mid, lenm, false, last, pl, l2)
            && match last {
                Ok(Some(_)) => false,
                Ok(None) => if vals.len() > 0 { r == Ok::<T, Error>(vals.last()) && post == pl } else { self.inner.rel(pl, r, post) && step(pl, post) },
                Err(e) => r == Err::<T, Error>(e) && post == pl,
            }
    }
//@@ preloop 1
let ghost mut g_args = *args; let ghost mut g_len = len; let ghost mut g_vals = Seq::<T>::empty();
//@@ loop 1
            invariant_except_break
                g_args == *args, g_len == len,
            invariant
                self.inner.pwf(),
                old(args).wf(),
                g_args.wf(),
                step(*old(args), g_args),
                iter_rel(self.inner, false, *old(args), usize::MAX, g_vals, g_args, g_len),
                g_vals.len() == 0 <==> last is None,
                g_vals.len() > 0 ==> last == Some(g_vals.last()),
            ensures
                step(g_args, *args),
                (exists|l2: usize| opt_rel(self.inner, g_args, g_len, false, Ok::<Option<T>, Error>(None), *args, l2)) || (g_vals.len() > 0 && g_args == *args), // #loop_ends_only_when_a_round_yields_nothing_or_consumes_nothing
            decreases len,
//@@ insert after 1 `last = Some(val);`
proof {
    lemma_iter_push(self.inner, false, *old(args), usize::MAX, g_vals, g_args, g_len, last->Some_0, *args, len);
    lemma_step_trans(*old(args), g_args, *args);
    g_args = *args; g_len = len; g_vals = g_vals.push(last->Some_0);
}
//@@ insert before 1 `if let Some(last) = last {`
proof { lemma_step_trans(*old(args), g_args, *args); }
let ghost g_pl = *args;
//@@ also fn meta
//@@ end


// ---- assumed contracts (iterator-adapter code outside Verus' subset; checked within a bound by Kani unit K01)
impl State {
    #[verifier::external_body]
    pub fn pick_winner(&self, other: &Self) -> (r: (bool, Option<usize>))
        ensures
            r.1 matches Some(ix) ==> first_diff(self.item_state@, other.item_state@, ix as int) && r.0 == !present(self.item_state[ix as int]),
            r.1 is None ==> r.0 && forall|ix: int| !first_diff(self.item_state@, other.item_state@, ix),
    { unimplemented!() }

    #[verifier::external_body]
    pub fn save_conflicts(&mut self, loser: &State, win: usize)
        ensures conflicts_saved(*old(self), *loser, win, *final(self)),
    { unimplemented!() }
}

//@@ fn src/structs.rs | fn this_or_that_picks_first
//@@ unit structs.this_or_that_picks_first tags=C07,C08,C05 only=default
//@@ ret r
//@@ spec
        requires
            old(args).wf(), old(args_a).wf(), old(args_b).wf(),
            step(*old(args), *old(args_a)), step(*old(args), *old(args_b)),
        ensures
            or_case(*old(args), *old(args_a), err_a, *old(args_b), err_b, r, *final(args)), // #decision_table
            final(args).wf(), // #preserves_wf
            step(*old(args), *final(args)), // #step
//@@ insert after 1 `args_a.save_conflicts(args_b, win);`
proof { lemma_conflicts_saved(*old(args), *old(args_a), *old(args_b), win, *args_a); }
//@@ insert after 1 `args_b.save_conflicts(args_a, win);`
proof { lemma_conflicts_saved(*old(args), *old(args_b), *old(args_a), win, *args_b); }
//@@ end


//@@ type src/structs.rs | struct ParseOrElse
//@@ unit structs.ParseOrElse tags=
//@@ attr
#[verifier::reject_recursive_types(T)]
//@@ end

//@@ fn src/structs.rs | impl Parser for Box | fn eval
//@@ unit structs.Box_dyn_Parser.eval tags=C07
//@@ members
    open spec fn pwf(&self) -> bool { (**self).pwf() }
    open spec fn rel(&self, pre: State, r: Result<T, Error>, post: State) -> bool { (**self).rel(pre, r, post) }
//@@ also fn meta
//@@ end

//@@ fn src/structs.rs | impl Parser for ParseOrElse | fn eval
//@@ unit structs.ParseOrElse.eval tags=C07,C08,C05 only=default
//@@ members
    open spec fn pwf(&self) -> bool { self.this.pwf() && self.that.pwf() }
    /// both branches run on copies of the same state; `or_case` picks the result and the state
    open spec fn rel(&self, pre: State, r: Result<T, Error>, post: State) -> bool {
        exists|ra: Result<T, Error>, a: State, rb: Result<T, Error>, b: State, ea: Option<Error>, eb: Option<Error>, out: Result<bool, Error>|
            #![trigger self.this.rel(pre, ra, a), self.that.rel(pre, rb, b), or_case(pre, a, ea, b, eb, out, post)]
            self.this.rel(pre, ra, a) && step(pre, a) && self.that.rel(pre, rb, b) && step(pre, b)
            && ea == res_err(ra) && eb == res_err(rb)
            && or_case(pre, a, ea, b, eb, out, post)
            && match out {
                Ok(true) => ra is Ok && r == ra,
                Ok(false) => rb is Ok && r == rb,
                Err(e) => r == Err::<T, Error>(e),
            }
    }
//@@ also fn meta external_body
//@@ end


//@@ type src/info.rs | struct OptionParser
//@@ unit info.OptionParser tags=
//@@ attr
#[verifier::reject_recursive_types(T)]
//@@ end

//@@ type src/info.rs | enum ExtraParams
//@@ unit info.ExtraParams tags=
//@@ end

//@@ type src/params.rs | struct ParseFlag
//@@ unit params.ParseFlag tags=
//@@ end

// ---- assumed contracts: rendering (string/format! code outside both tools' reach) – results are uninterpreted
#[verifier::external_body]
pub fn render_help(path: &[String], info: &Info, parser_meta: &Meta, help_meta: &Meta, include_env: bool) -> Doc
{ unimplemented!() }

impl Message {
    #[verifier::external_body]
    pub fn render(self, args: &State, meta: &Meta) -> (r: ParseFailure)
        ensures r is Stderr, // assumed: an error message is rendered for stderr (src/error.rs:281-617, not extracted)
    { unimplemented!() }
}

impl Doc {
    #[verifier::external_body]
    pub fn default() -> Doc { unimplemented!() }
    #[verifier::external_body]
    pub fn token(&mut self, token: Token) { unimplemented!() }
    #[verifier::external_body]
    pub fn text(&mut self, text: &str) { unimplemented!() }
    #[verifier::external_body]
    pub fn doc(&mut self, buf: &Doc) { unimplemented!() }
}

//@@ type src/buffer.rs | enum Token
//@@ unit buffer.Token tags=
//@@ end

//@@ type src/buffer.rs | enum Block
//@@ unit buffer.Block tags=
//@@ end

//@@ type src/buffer.rs | enum Style
//@@ unit buffer.Style tags=
//@@ end


//@@ fn src/item.rs | impl TryFrom for ShortLong | fn try_from
//@@ unit item.ShortLong.try_from tags=C12,C18 inherent
//@@ ret r
//@@ spec
        ensures r == first_names(*named), // #listed_under_first_short_and_first_long_name
//@@ end

//@@ fn src/params.rs | impl NamedArg | fn flag_item
//@@ unit params.NamedArg.flag_item tags=C12,C18
//@@ ret r
//@@ spec
        ensures
            r is Some == (first_names(*self) is Ok), // #an_item_iff_it_has_a_name
            r matches Some(i) ==> i is Flag && i->Flag_name == first_names(*self)->Ok_0 && i->Flag_shorts@ == self.short@ && i->Flag_env == first_env(self.env@) && i->Flag_help == self.help, // #name_env_help_are_the_declared_ones
//@@ end

//@@ fn src/meta.rs | impl From for Meta | fn from
//@@ unit meta.Meta.from_item tags=C12 inherent
//@@ ret r
//@@ spec
        ensures r == Meta::Item(Box::new(value)),
//@@ end

//@@ fn src/item.rs | impl Item | fn required
//@@ unit item.Item.required tags=C12
//@@ ret r
//@@ spec
        ensures r == (if required { Meta::Item(Box::new(self)) } else { Meta::Optional(Box::new(Meta::Item(Box::new(self)))) }), // #optional_brackets_iff_not_required
//@@ end

//@@ fn src/params.rs | impl Parser for ParseFlag | fn eval
//@@ unit params.ParseFlag.eval tags=C18,C10,C06,C20
//@@ members
    open spec fn pwf(&self) -> bool { named_has_key(self.named) }
    open spec fn rel(&self, pre: State, r: Result<T, Error>, post: State) -> bool {
        flag_rel(self.named, self.present, self.absent, pre, r, post)
    }
//@@ insert before 1 `Ok(self.present.clone())`
proof {
    let on_line = exists|i: int| #[trigger] old(args).avail(i) && self.named.matches_spec(old(args).items[i], false);
    if !on_line { lemma_env_find_hit(self.named.env@); }
}
//@@ insert before 1 `match &self.absent`
proof { lemma_env_find_miss(self.named.env@); }
//@@ also fn meta
//@@ ret m
//@@ spec
        ensures
            first_names(self.named) is Err ==> m is Skip, // #nothing_shown_for_an_item_without_a_name
            first_names(self.named) is Ok ==> shows_names_of(m, self.named) && (m is Optional) == (self.absent is Some), // #shown_under_its_first_names_optional_iff_it_has_a_default
//@@ end

//@@ fn src/params.rs | fn build_flag_parser
//@@ unit params.build_flag_parser tags=C10
//@@ ret r
//@@ spec
        ensures r.present == present, r.absent == absent, r.named == named,
//@@ end

//@@ fn src/params.rs | impl NamedArg | fn req_flag
//@@ unit params.NamedArg.req_flag tags=C10 external_body keep_body
//@@ ret r
//@@ spec
        ensures
            named_has_key(self) ==> r.pwf(),
            forall|pre: State, res: Result<T, Error>, post: State| #[trigger] r.rel(pre, res, post) == flag_rel(self, present, None::<T>, pre, res, post),
//@@ end


//@@ fn src/info.rs | impl Info | fn mk_help_parser
//@@ unit info.Info.mk_help_parser tags=C10
//@@ ret r
//@@ spec
        requires named_has_key(self.help_arg),
        ensures
            r.pwf(),
            forall|pre: State, res: Result<(), Error>, post: State| #[trigger] r.rel(pre, res, post) == flag_rel(self.help_arg, (), None::<()>, pre, res, post),
//@@ end

//@@ fn src/info.rs | impl Info | fn mk_version_parser
//@@ unit info.Info.mk_version_parser tags=C10
//@@ ret r
//@@ spec
        requires named_has_key(self.version_arg),
        ensures
            r.pwf(),
            forall|pre: State, res: Result<(), Error>, post: State| #[trigger] r.rel(pre, res, post) == flag_rel(self.version_arg, (), None::<()>, pre, res, post),
//@@ end

//@@ fn src/info.rs | impl Parser for Info | fn eval
//@@ unit info.Info.eval tags=C10
//@@ members
    /// the help and version flags can be looked for (they have a name)
    open spec fn pwf(&self) -> bool { named_has_key(self.help_arg) && named_has_key(self.version_arg) }
    /// help flag available anywhere in scope (or its variable set) => Help; otherwise version only if configured and requested
    open spec fn rel(&self, pre: State, r: Result<ExtraParams, Error>, post: State) -> bool {
        let h = help_requested(*self, pre) || env_present(self.help_arg.env@);
        &&& h ==> r is Ok && r->Ok_0 is Help // #help_flag_anywhere_in_scope_means_help
        &&& !h && version_requested(*self, pre) ==> r is Ok && r->Ok_0 is Version && Some(r->Ok_0->Version_0) == self.version // #version_only_if_configured
        &&& !h && !version_requested(*self, pre) ==> r is Err && !(r->Err_0.0 is ParseFailure) // #otherwise_not_help
    }
//@@ insert before 1 `if let Some(version) = &self.version {`
proof { assert(forall|i: int| #![trigger args.avail(i)] #![trigger old(args).avail(i)] args.avail(i) == old(args).avail(i)); }
//@@ also fn meta external_body
//@@ end


//@@ fn src/info.rs | impl OptionParser | fn run_subparser
//@@ unit info.OptionParser.run_subparser tags=C01,C05,C08,C10,C11,C14,C20
//@@ ret r
//@@ spec
        requires
            self.inner.pwf(), self.info.pwf(),
            old(args).wf(),
        ensures
            run_rel(*self, *old(args), r, *final(args)), // #refines_run_rel
            step(*old(args), *final(args)), // #step
//@@ end


//@@ type src/params.rs | enum Position
//@@ unit params.Position tags= derive_copy
//@@ end

//@@ type src/params.rs | struct ParsePositional
//@@ unit params.ParsePositional tags=
//@@ end

//@@ type src/params.rs | struct ParseArgument
//@@ unit params.ParseArgument tags=
//@@ end

// assumed: conversion of the OS string (TypeId / Any / FromStr code) – result is the uninterpreted function os_parse
#[verifier::external_body]
pub fn parse_os_str<T>(os: OsString) -> (r: Result<T, String>)
where
    T: std::str::FromStr + 'static,
    <T as std::str::FromStr>::Err: std::fmt::Display,
    ensures r == os_parse::<T>(os),
{ unimplemented!() }

//@@ fn src/params.rs | fn parse_pos_word
//@@ unit params.parse_pos_word tags=C09,C06,C05,C20
//@@ ret r
//@@ spec
        requires old(args).wf(),
        ensures
            pos_rel(position, metavar, *old(args), r, *final(args)), // #strictness_table
            step(*old(args), *final(args)), // #step
//@@ end

//@@ fn src/params.rs | impl ParsePositional | fn meta
//@@ unit params.ParsePositional.meta tags=C12,C09
//@@ ret m
//@@ spec
        ensures
            shown_item(m) matches Some(i) && i is Positional && i->Positional_metavar == Metavar(self.metavar) && i->Positional_help == self.help, // #shown_with_its_metavariable_and_help
            (m is Strict) == (self.position is Strict), // #strict_positional_is_shown_behind_the_separator
//@@ end

//@@ fn src/params.rs | impl Parser for ParsePositional | fn eval
//@@ unit params.ParsePositional.eval tags=C09,C06,C02
//@@ members
    open spec fn pwf(&self) -> bool { true }
    /// the word picked by the strictness table, converted; a conversion failure is the *final* error
    /// ParseFailed(position of the item, text returned by the conversion)
    open spec fn rel(&self, pre: State, r: Result<T, Error>, post: State) -> bool {
        exists|ro: Result<OsString, Error>| #[trigger] pos_rel(self.position, Metavar(self.metavar), pre, ro, post) && match ro {
            Err(e) => r == Err::<T, Error>(e),
            Ok(os) => match os_parse::<T>(os) {
                Ok(v) => r == Ok::<T, Error>(v),
                Err(s) => r == Err::<T, Error>(Error(Message::ParseFailed(post.current, s))),
            },
        }
    }
//@@ also fn meta
//@@ ret m
//@@ spec
        ensures
            shown_item(m) matches Some(i) && i is Positional && i->Positional_metavar == Metavar(self.metavar), // #shown_with_its_metavariable
            (m is Strict) == (self.position is Strict),
//@@ end

//@@ fn src/params.rs | impl ParseArgument | fn item
//@@ unit params.ParseArgument.item tags=C12,C18
//@@ ret r
//@@ spec
        ensures
            r is Some == (first_names(self.named) is Ok), // #an_item_iff_it_has_a_name
            r matches Some(i) ==> i is Argument && i->Argument_name == first_names(self.named)->Ok_0 && i->Argument_shorts@ == self.named.short@
                && i->Argument_metavar == Metavar(self.metavar) && i->Argument_env == first_env(self.named.env@) && i->Argument_help == self.named.help, // #name_metavar_env_help_are_the_declared_ones
//@@ end

//@@ fn src/params.rs | impl ParseArgument | fn take_argument
//@@ unit params.ParseArgument.take_argument tags=C18,C02,C06,C20,C14
//@@ ret r
//@@ spec
        requires old(args).wf(), named_has_key(self.named),
        ensures
            arg_rel(self.named, self.adjacent, Metavar(self.metavar), *old(args), r, *final(args)), // #line_first_then_first_set_variable_then_missing
            step(*old(args), *final(args)),
//@@ insert before 1 `args.current = None;`
proof { lemma_env_find_hit_val(self.named.env@, val); }
//@@ insert before 1 `if let Some(item) = self.item()`
proof { lemma_env_find_miss(self.named.env@); }
//@@ end

//@@ fn src/params.rs | impl Parser for ParseArgument | fn eval
//@@ unit params.ParseArgument.eval tags=C02,C06,C18,C14
//@@ members
    open spec fn pwf(&self) -> bool { named_has_key(self.named) }
    open spec fn rel(&self, pre: State, r: Result<T, Error>, post: State) -> bool {
        exists|ro: Result<OsString, Error>| #[trigger] arg_rel(self.named, self.adjacent, Metavar(self.metavar), pre, ro, post) && match ro {
            Err(e) => r == Err::<T, Error>(e),
            Ok(os) => match os_parse::<T>(os) {
                Ok(v) => r == Ok::<T, Error>(v),
                Err(s) => r == Err::<T, Error>(Error(Message::ParseFailed(post.current, s))),
            },
        }
    }
//@@ also fn meta
//@@ ret m
//@@ spec
        ensures
            first_names(self.named) is Err ==> m is Skip, // #nothing_shown_for_an_item_without_a_name
            first_names(self.named) is Ok ==> shows_names_of(m, self.named) && m is Item, // #shown_under_its_first_names
//@@ end


// T9: the closure literal below is rustc's expansion of `construct!(a, b)` (src/lib.rs @fin arm)
pub fn construct2<TA, TB, A: Parser<TA>, B: Parser<TB>>(a: A, b: B)
    requires a.pwf(), b.pwf(),
{
    let inner =
//@@ macro construct c2
//@@ unit lib.construct_2 tags=C01,C05,C10
//@@ spec
        -> (r: Result<(TA, TB), Error>)
        requires a.pwf(), b.pwf(), old(args).wf(),
        ensures
            con2_rel(a, b, failfast, *old(args), r, *final(args)), // #fields_left_to_right_on_shared_state_first_error_wins
            step(*old(args), *final(args)), // #step
//@@ end
    ;
}

pub fn construct3<TA, TB, TC, A: Parser<TA>, B: Parser<TB>, C: Parser<TC>>(a: A, b: B, c: C)
    requires a.pwf(), b.pwf(), c.pwf(),
{
    let inner =
//@@ macro construct c3
//@@ unit lib.construct_3 tags=C01,C05,C10
//@@ spec
        -> (r: Result<(TA, TB, TC), Error>)
        requires a.pwf(), b.pwf(), c.pwf(), old(args).wf(),
        ensures
            con3_rel(a, b, c, failfast, *old(args), r, *final(args)), // #fields_left_to_right_on_shared_state_first_error_wins
            step(*old(args), *final(args)), // #step
//@@ end
    ;
}


//@@ type src/structs.rs | struct ParseCon
//@@ unit structs.ParseCon tags=
//@@ end

// ParseCon::eval is extracted as an inherent fn (T4): its contract speaks about the product closure's own ensures
//@@ fn src/structs.rs | impl Parser for ParseCon | fn eval
//@@ unit structs.ParseCon.eval tags=C01,C05,C10 inherent
//@@ ret r
//@@ spec
        requires
            forall|b: bool, s: &mut State| #[trigger] self.inner.requires((b, s)) <== (*s).wf(),
            old(args).wf(),
        ensures
            exists|a: &mut State| *a == *old(args) && final(args).same_but_current(*final(a)) && #[trigger] self.inner.ensures((self.failfast, a), r), // #result_and_state_are_the_closures
            final(args).current is None, // #current_reset
//@@ insert before 1 `let res =`
let ghost g_pre = *args;
//@@ insert before 1 `args.current = None;`
let ghost g_mid = *args;
proof { assert(exists|a: &mut State| *a == g_pre && *final(a) == g_mid && #[trigger] self.inner.ensures((self.failfast, a), res)); }
//@@ end


// ---- adjacency windows (C19)
//@@ type src/args.rs | mod inner | struct ArgRangesIter
//@@ unit args.ArgRangesIter tags=
//@@ end

impl State {
    /// assumed contract (iterator-adapter code; checked within a bound by Kani unit K01.set_scope)
    #[verifier::external_body]
    pub fn set_scope(&mut self, scope: Range<usize>)
        requires scope.start <= scope.end <= old(self).item_state.len(), old(self).item_state.len() == old(self).items.len(), old(self).items.len() < usize::MAX,
        ensures
            final(self).scope == scope,
            final(self).remaining == count_present(old(self).item_state@, scope.start as int, scope.end as int),
            final(self).items == old(self).items && final(self).item_state == old(self).item_state && final(self).current == old(self).current
                && final(self).path == old(self).path && final(self).comp_eq(*old(self)),
    { unimplemented!() }
}

//@@ fn src/args.rs | mod inner | impl State | fn ranges
//@@ unit args.State.ranges tags=C19
//@@ ret r
//@@ spec
        requires self.wf(),
        ensures
            r.args == self && r.cur == self.scope.start, // #search_starts_at_the_scope_start
            r.width == (if item is Argument { 2usize } else { 1usize }), // #argument_blocks_are_two_items_wide
//@@ end

//@@ fn src/args.rs | mod inner | impl Iterator for ArgRangesIter | fn next
//@@ unit args.ArgRangesIter.next tags=C19,C04 inherent loops=1
//@@ ret r
//@@ spec
        requires
            old(self).args.wf(),
            old(self).args.scope.start <= old(self).cur,
            1 <= old(self).width <= 2,
        ensures
            final(self).args == old(self).args && final(self).width == old(self).width, // #frame
            final(self).args.scope.start <= final(self).cur,
            r matches Some(t) ==> {
                &&& old(self).cur <= t.0 && old(self).args.avail(t.0 as int) // #candidate_start_is_an_available_item_of_the_scope
                &&& forall|j: int| old(self).cur <= j < t.0 ==> !old(self).args.avail(j) // #candidates_in_command_line_order
                &&& t.0 + t.1 <= old(self).args.items.len() && t.1 == old(self).width // #block_fits_on_the_line
                &&& t.2.wf() && t.2.scope.start == t.0 && t.2.scope.end == old(self).args.items.len() // #sub_state_starts_at_the_candidate
                &&& t.2.items == old(self).args.items && t.2.item_state == old(self).args.item_state && t.2.comp_eq(*old(self).args)
                &&& final(self).cur == t.0 + 1
            },
//@@ loop 1
            invariant
                self.args == old(self).args, self.width == old(self).width, 1 <= self.width <= 2,
                self.args.wf(),
                old(self).cur <= self.cur,
                self.args.scope.start <= self.cur,
                forall|j: int| old(self).cur <= j < self.cur ==> !self.args.avail(j),
            decreases self.args.scope.end as int + 1 - self.cur as int,
//@@ end




// ---- tokenizer driver (C09)
//@@ type src/args.rs | struct Args
//@@ unit args.Args tags=
//@@ subst `Box<dyn ExactSizeIterator<Item = OsString> + 'a>` => `ArgsItems<'a>`
//@@ end

// ---- C11: the program name is the file name of argv[0]; the arguments are argv[1..] in order
//@@ fn src/args.rs | impl Args | fn current_args
//@@ unit args.Args.current_args tags=C11
//@@ ret r
//@@ spec
    ensures
        (r.name matches Some(n) ==> program_name(process_argv()) == Some(n@)) && (r.name is None ==> program_name(process_argv()) is None), // #program_name_is_the_file_name_of_argv0
        r.items.rest() =~= (if process_argv().len() > 0 { process_argv().skip(1) } else { process_argv() }), // #arguments_are_argv_after_the_program_name
//@@ insert after 1 `|n`
: OsString
//@@ insert after 1 `|n|`
-> (o: Option<String>) ensures (o matches Some(s) ==> program_name(seq![n]) == Some(s@)) && (o is None ==> program_name(seq![n]) is None) // #name_is_file_name_of_the_path_when_utf8
//@@ insert before 1 `Box::new(value)`
ArgsItems::unsize(
//@@ insert after 1 `Box::new(value)`
)
//@@ end

//@@ type src/arg.rs | enum ArgType
//@@ unit arg.ArgType tags= derive_eq
//@@ end

/// assumed (byte-level code over OsStr; bounded by Kani K03): an attached value is always an ArgWord; the name of a
/// short option is not empty
#[verifier::external_body]
pub fn split_os_argument(input: &std::ffi::OsStr) -> (r: Option<(ArgType, String, Option<Arg>)>)
    ensures
        r matches Some(t) ==> (t.2 matches Some(a) ==> a is ArgWord),
        r matches Some(t) ==> (t.0 is Short ==> t.1@.len() > 0),
{ unimplemented!() }

// ---- short option clusters (C02, C05, C04): real body against the UTF-8 model of vstd
//@@ fn src/args.rs | fn disambiguate_short
//@@ unit args.disambiguate_short tags=C02,C05,C04,C10 loops=1 desugar_for=1 nowrap
//@@ ret r
//@@ attr
#[verifier::loop_isolation(false)]
//@@ spec
    requires short@.len() > 0,
    ensures
        final(items).len() >= old(items).len(), // #appends_only
        forall|i: int| 0 <= i < old(items).len() ==> #[trigger] final(items)[i] == old(items)[i], // #items_of_earlier_words_kept
        cluster_post(final(items)@.skip(old(items).len() as int), r, old(items).len() as int, short, short_flags@, short_args@, os), // #cluster_is_flags_then_at_most_one_argument_with_the_rest_as_its_value
//@@ preloop 1
let ghost os0 = os;
//@@ loop 1
        invariant
            ci_seq(verif_it_1) == short@,
            forall|i: int| 0 <= i < old(items).len() ==> #[trigger] items[i] == old(items)[i],
            os == os0,
            0 <= ci_pos(verif_it_1) <= short@.len(),
            short@.len() > 1 || ci_pos(verif_it_1) == 0,
            items.len() == old(items).len() + ci_pos(verif_it_1),
            forall|i: int| 0 <= i < ci_pos(verif_it_1) ==> pure_flag(#[trigger] short@[i], short_flags@, short_args@),
            flag_run(items@.skip(old(items).len() as int), short@, ci_pos(verif_it_1), os0),
            ci_pos(verif_it_1) == 0 ==> first_flag == os0,
        decreases short@.len() - ci_pos(verif_it_1),
//@@ loopbody 1
proof { lemma_cluster_step(&short, ci_pos(verif_it_1) - 1, ix, c); }
//@@ insert after_stmt 1 `let rest =`
proof { lemma_cluster_rest(&short, ci_pos(verif_it_1), rest); }
//@@ insert before 1 `return None;`
proof { assert(items@.skip(old(items).len() as int) =~= seq![Arg::Short(short@[0], false, os0)]);
        assert(cluster_items(items@.skip(old(items).len() as int), None, old(items).len() as int, short@, short, short_flags@, short_args@, os0, 0));
        assert(cluster_post(items@.skip(old(items).len() as int), None, old(items).len() as int, short, short_flags@, short_args@, os0)); }
//@@ insert before 2 `items.push(Arg::Short(c, false, std::mem::take(&mut first_flag)));`
let ghost before = items@.skip(old(items).len() as int);
//@@ insert after 2 `items.push(Arg::Short(c, false, std::mem::take(&mut first_flag)));`
proof { assert(items@.skip(old(items).len() as int) =~= before.push(items@[items.len() - 1])); }
//@@ insert before 1 `items.push(Arg::Short(c, adjacent_body, std::mem::take(&mut os)));`
let ghost before = items@.skip(old(items).len() as int);
//@@ insert after 1 `items.push(Arg::Short(c, adjacent_body, std::mem::take(&mut os)));`
proof { assert(items@.skip(old(items).len() as int) =~= before.push(items@[items.len() - 1])); }
let ghost before2 = items@.skip(old(items).len() as int);
//@@ insert after 1 `items.push(Arg::Word(rest.into()));`
proof { assert(items@.skip(old(items).len() as int) =~= before2.push(items@[items.len() - 1])); }
//@@ insert before 2 `return None;`
proof { let j = ci_pos(verif_it_1) - 1; let new = items@.skip(old(items).len() as int);
        assert(new.len() == items.len() - old(items).len());
        assert(forall|i: int| 0 <= i < new.len() ==> new[i] == items@[old(items).len() + i]);
        assert(cluster_items(new, None, old(items).len() as int, short@, short, short_flags@, short_args@, os0, j));
        assert(cluster_post(new, None, old(items).len() as int, short, short_flags@, short_args@, os0)); }
//@@ insert before 3 `return None;`
proof { let j = ci_pos(verif_it_1) - 1;
        assert(items@.skip(old(items).len() as int) =~= seq![Arg::Word(os0)]);
        assert(cluster_items(items@.skip(old(items).len() as int), None, old(items).len() as int, short@, short, short_flags@, short_args@, os0, j));
        assert(cluster_post(items@.skip(old(items).len() as int), None, old(items).len() as int, short, short_flags@, short_args@, os0)); }
//@@ insert before 1 `items.push(Arg::Word(std::mem::take(&mut os)));`
let ghost before = items@.skip(old(items).len() as int);
//@@ insert before 1 `return Some(msg);`
proof { let j = ci_pos(verif_it_1) - 1; let new = items@.skip(old(items).len() as int);
        assert(new =~= before.push(items@[items.len() - 1]));
        assert(cluster_items(new, Some(msg), old(items).len() as int, short@, short, short_flags@, short_args@, os0, j));
        assert(cluster_post(new, Some(msg), old(items).len() as int, short, short_flags@, short_args@, os0)); }
//@@ postloop 1
proof { let n = short@.len() as int;
        assert(cluster_items(items@.skip(old(items).len() as int), None, old(items).len() as int, short@, short, short_flags@, short_args@, os0, n));
        assert(cluster_post(items@.skip(old(items).len() as int), None, old(items).len() as int, short, short_flags@, short_args@, os0)); }
//@@ end


// completion marker scanner (feature = "autocomplete"): the struct is extracted, its two methods are assumed
//@@ type src/complete_run.rs | struct ArgScanner
//@@ unit complete_run.ArgScanner tags=
//@@ end

#[cfg(feature = "autocomplete")]
impl ArgScanner<'_> {
    /// assumed (str matching / process::exit code): recognises the completion marker items; touches only `revision`
    #[verifier::external_body]
    pub fn check_next(&mut self, arg: &std::ffi::OsStr) -> (r: bool)
        ensures final(self).name == old(self).name, !r ==> final(self).revision == old(self).revision,
    { unimplemented!() }
}

//@@ fn src/args.rs | mod inner | impl State | fn construct
//@@ unit args.State.construct tags=C09,C10,C03,C04,C20,C11 loops=1 desugar_for=1
//@@ ret r
//@@ spec
        requires *old(err) is None,
        ensures
            r.wf() && r.scope.start == 0 && r.scope.end == r.items.len(), // #whole_line_in_scope
            *final(err) is None && no_comp(r) ==> dd_rule(r.items@, r.item_state@), // #only_the_first_double_dash_separates_and_is_pre_consumed
            r.path@ =~= (match args.name { Some(n) => seq![n], None => Seq::<String>::empty() }), // #command_path_starts_as_just_the_program_name
            *final(err) is None ==> forall|m: int| first_posword(r.items@, m) ==> exists|mw: int| #[trigger] tail_raw(r.items@, m, args.items.rest(), mw, args.items.rest().len() as int), // #every_word_from_the_separator_on_is_delivered_as_written
//@@ loop 1
            invariant_except_break
                *err is None,
            invariant
                <OsString as PartialEqSpec<&'static str>>::obeys_eq_spec(),
                pos_only == (double_dash_marker is Some),
                double_dash_marker matches Some(m) ==> m < items.len() && first_posword(items@, m as int) && is_dd(items[m as int]->PosWord_0) // #marker_is_the_item_index_of_the_first_double_dash
                    && forall|j: int| m <= j < items.len() ==> #[trigger] items[j] is PosWord,
                double_dash_marker is None ==> forall|j: int| 0 <= j < items.len() ==> !(#[trigger] items[j] is PosWord),
                verif_it_1.rest().len() <= all.len() && verif_it_1.rest() =~= all.skip(all.len() - verif_it_1.rest().len()),
                double_dash_marker matches Some(m) ==> tail_raw(items@, m as int, all, mw, all.len() - verif_it_1.rest().len()), // #every_word_from_the_separator_on_is_delivered_as_written
            ensures
                *err is None ==> verif_it_1.rest().len() == 0,
            decreases verif_it_1.rest().len(),
//@@ preloop 1
proof { axiom_os_eq_ref_obeys(); }
let ghost all = args.items.rest();
let ghost mut mw: int = 0;
//@@ insert after 1 `double_dash_marker = Some(items.len());`
proof { mw = all.len() - verif_it_1.rest().len() - 1; }
//@@ insert after 1 `let mut double_dash_marker`
: Option<usize>
//@@ insert before 1 `let mut path = Vec::new();`
proof {
    axiom_arg_vec_len(items);
    let n = items.len() as int;
    let fresh = Seq::new(items.len() as nat, |i: int| ItemState::Unparsed);
    lemma_count_all_present(fresh, 0, n);
    if double_dash_marker is Some && item_state@[double_dash_marker->Some_0 as int] is Parsed {
        let m = double_dash_marker->Some_0 as int;
        assert(item_state@ =~= fresh.update(m, ItemState::Parsed));
    } else {
        // no separator, or (completion mode only) a trailing `--` that is left available for completion
        assert(item_state@ =~= fresh);
    }
}
let ghost g_items = items@;
//@@ insert before 1 `State {`
proof {
    if *err is None && double_dash_marker is Some { assert(tail_raw(g_items, double_dash_marker->Some_0 as int, all, mw, all.len() as int)); }
    assert forall|j: int| 0 <= j < g_items.len() && first_posword(g_items, j) implies double_dash_marker == Some(j as usize) by {
        if double_dash_marker is Some {
            let m = double_dash_marker->Some_0 as int;
            if j < m { assert(g_items[j] is PosWord); } 
            if m < j { assert(g_items[m] is PosWord); }
        }
    }
}
//@@ insert after 1 `let mut items`
: Vec<Arg>
//@@ end

// ---- short names for cluster disambiguation (C02)
//@@ fn src/meta.rs | impl Meta | fn collect_shorts
//@@ unit meta.Meta.collect_shorts tags=C02,C04 loops=1
//@@ spec
        ensures
            final(flags)@ == old(flags)@ + shorts_of(*self).0, // #every_reachable_flag_contributes_its_short_names
            final(args)@ == old(args)@ + shorts_of(*self).1, // #every_reachable_argument_contributes_its_short_names
        decreases self,
//@@ insert after 1 `for x in`
verif_it:
//@@ loop 1
                    invariant
                        (*self is And || *self is Or) && meta_children(*self) == xs@,
                        flags@ == old(flags)@ + shorts_upto(*self, verif_it.index@ as int).0,
                        args@ == old(args)@ + shorts_upto(*self, verif_it.index@ as int).1,
//@@ end


// ---- help item collection (C12)
//@@ type src/meta_help.rs | enum HiTy
//@@ unit meta_help.HiTy tags= derive_copy derive_eq
//@@ end

//@@ type src/meta_help.rs | enum HelpItem
//@@ unit meta_help.HelpItem tags= derive_copy
//@@ end

//@@ type src/meta_help.rs | struct HelpItems
//@@ unit meta_help.HelpItems tags=
//@@ end


//@@ fn src/meta_help.rs | impl From for HelpItem | fn from
//@@ unit meta_help.HelpItem.from tags=C12 inherent
//@@ ret r
//@@ spec
        ensures r == help_item_of(item), is_leaf(r), // #name_metavar_help_and_env_are_the_items
//@@ end

// ---- the three lists of `--help` (C12): every entry goes to exactly the list of its kind
//@@ type src/meta_help.rs | enum ItemBlock
//@@ unit meta_help.ItemBlock tags=
//@@ end

//@@ type src/meta_help.rs | struct HelpItemsIter
//@@ unit meta_help.HelpItemsIter tags=
//@@ end

//@@ fn src/meta_help.rs | impl HelpItem | fn has_help
//@@ unit meta_help.HelpItem.has_help tags=C12
//@@ ret r
//@@ spec
        ensures r == described(*self), // #described_iff_help_text_present
//@@ end

//@@ fn src/meta_help.rs | impl HelpItem | fn ty
//@@ unit meta_help.HelpItem.ty tags=C12
//@@ ret r
//@@ spec
        ensures r == section_of(*self), // #flags_arguments_under_options_commands_under_commands_positionals_under_positionals
//@@ end

//@@ fn src/meta_help.rs | impl Iterator for HelpItemsIter | fn next
//@@ unit meta_help.HelpItemsIter.next tags=C12,C04 inherent loops=1
//@@ ret r
//@@ spec
        requires
            old(self).cur <= old(self).items@.len(),
            old(self).block == block_at(old(self).items@, old(self).cur as int),
        ensures
            final(self).items == old(self).items && final(self).target == old(self).target, // #frame
            final(self).cur <= final(self).items@.len() && final(self).block == block_at(final(self).items@, final(self).cur as int), // #block_tracks_the_brackets_passed
            match r {
                Some(item) => {
                    &&& old(self).cur < final(self).cur && *item == old(self).items@[final(self).cur - 1] // #yields_entries_of_the_list
                    &&& listed_under(old(self).items@, old(self).target, final(self).cur - 1) // #only_entries_of_the_requested_list
                    &&& forall|j: int| old(self).cur <= j < final(self).cur - 1 ==> !listed_under(old(self).items@, old(self).target, j) // #in_order_skipping_only_entries_of_other_lists
                },
                None => forall|j: int| old(self).cur <= j < old(self).items@.len() ==> !listed_under(old(self).items@, old(self).target, j), // #none_of_the_list_left
            },
//@@ loop 1
            invariant
                self.items == old(self).items && self.target == old(self).target,
                old(self).cur <= self.cur <= self.items@.len(),
                self.block == block_at(self.items@, self.cur as int),
                forall|j: int| old(self).cur <= j < self.cur ==> !listed_under(self.items@, self.target, j),
            decreases self.items@.len() - self.cur,
//@@ loopbody 1
proof { axiom_hity_eq(self.target, self.target); }
//@@ insert before 1 `self.cur += 1;`
proof { assert(self.cur < self.items@.len()); assert(*item == self.items@[self.cur as int]); assert(self.items@.len() == self.items.len()); }
let ghost b0 = self.block;
//@@ insert before 1 `if keep {`
proof {
    let k = self.cur - 1;
    assert(b0 == block_at(self.items@, k));
    assert(self.block == block_at(self.items@, k + 1));
    assert(*item == self.items@[k]);
    if is_bracket(*item) { assert(keep == (section_of(*item) == self.target)); } else { // #kept_iff_listed_under_the_requested_list
        match b0 {
            ItemBlock::No => { assert(keep == (section_of(*item) == self.target)); } // #kept_iff_listed_under_the_requested_list
            ItemBlock::Decor(t) => { assert(keep == (t == self.target)); } // #kept_iff_listed_under_the_requested_list
            ItemBlock::Anywhere(t) => { assert(keep == (t == self.target && described(*item))); } // #kept_iff_listed_under_the_requested_list
        }
    }
    assert(keep == listed_under(self.items@, self.target, k));
}
//@@ end

impl Meta {
    /// assumed (its body passes a fn item to find_map, which Verus cannot read): None only for a tree without any item
    #[verifier::external_body]
    pub fn peek_front_ty(&self) -> (r: Option<HiTy>)
        ensures r is None ==> leaves(self).len() == 0,
    { unimplemented!() }
}

//@@ fn src/meta_help.rs | impl HelpItems | fn append_meta | fn go
//@@ unit meta_help.append_meta.go tags=C12,C04 loops=1
//@@ spec
        ensures
            strip(final(hi).items@) == strip(old(hi).items@) + leaves(meta), // #lists_every_item_once_in_order_and_nothing_else
        decreases meta,
//@@ insert after 1 `for x in`
verif_it:
//@@ loop 1
                        invariant
                            (*meta is And || *meta is Or) && meta_children(*meta) == xs@,
                            strip(hi.items@) == strip(old(hi).items@) + leaves_upto(meta, verif_it.index@ as int),
//@@ end


// ---- documentation sections (C16; feature = "docgen" only)
//@@ type src/buffer.rs | struct DocSection
//@@ unit buffer.DocSection tags=
//@@ end

impl<'a> HelpItems<'a> {
    /// #[derive(Default)] (T6): an empty item list
    #[verifier::external_body]
    pub fn default() -> (r: Self)
        ensures r.items@.len() == 0,
    { unimplemented!() }
}

//@@ fn src/meta_help.rs | impl HelpItems | fn append_meta
//@@ unit meta_help.HelpItems.append_meta tags=C12,C16 hoist_nested
//@@ spec
        ensures strip(final(self).items@) == strip(old(self).items@) + leaves(meta), // #delegates_to_go
//@@ end

//@@ fn src/buffer.rs | fn extract_sections
//@@ unit buffer.extract_sections tags=C16 loops=1
//@@ attr
#[verifier::exec_allows_no_decreases_clause]
//@@ spec
        ensures
            sections_text(final(sections)@) == sections_text(old(sections)@) + levels(meta, info, path_text(old(path)@)), // #every_reachable_level_once_in_order
            path_text(final(path)@) == path_text(old(path)@), // #path_restored
//@@ insert after 1 `for item in`
verif_it:
//@@ loop 1
        invariant
            verif_it.index@ <= hi.items@.len(),
            strip(hi.items@) == leaves(meta),
            path_text(path@) == path_text(old(path)@),
            sections_text(sections@) == sections_text(old(sections)@) + seq![(path_text(old(path)@), info, meta)]
                + levels_seq(hi.items@.subrange(0, verif_it.index@ as int), path_text(old(path)@)),
//@@ insert before 1 `let mut hi = HelpItems::default();`
proof {
    assert(sections@ =~= old(sections)@.push(sections@.last()));
    assert(sections_text(sections@) =~= sections_text(old(sections)@) + seq![(path_text(old(path)@), info, meta)]);
}
//@@ loopbody 1
proof {
    let idx = verif_it.index@ as int;
    assert(hi.items@.subrange(0, idx + 1) =~= hi.items@.subrange(0, idx).push(hi.items@[idx]));
    lemma_levels_seq_push(hi.items@.subrange(0, idx), hi.items@[idx], path_text(old(path)@));
}
let ghost g_path = path@; let ghost g_sections = sections@;
//@@ insert after 1 `path.push((*name).to_string());`
proof { assert(path_text(path@) =~= path_text(g_path).push(name@)); }
//@@ insert before 1 `path.pop();`
let ghost g_before_pop = path@;
//@@ insert after 1 `path.pop();`
proof {
    assert(path@ =~= g_before_pop.drop_last());
    assert(path_text(path@) =~= path_text(g_before_pop).drop_last());
    assert(path_text(path@) =~= path_text(g_path));
}
//@@ postloop 1
proof {
    assert(hi.items@.subrange(0, hi.items@.len() as int) =~= hi.items@);
    lemma_levels_seq_strip(hi.items@, path_text(old(path)@));
    lemma_levels_leaves(meta, path_text(old(path)@));
}
//@@ end

// ---- roff escaping (C16): the real byte loop against the escaping table
//@@ type src/buffer/manpage/escape.rs | enum Apostrophes
//@@ unit escape.Apostrophes tags= derive_copy derive_eq
//@@ end

//@@ type src/buffer/manpage/escape.rs | const APOSTROPHE
//@@ unit escape.APOSTROPHE tags=
//@@ subst `&str` => `&'static str`
//@@ end

//@@ type src/buffer/manpage/escape.rs | enum Escape
//@@ unit escape.Escape tags= derive_copy derive_eq
//@@ end

//@@ fn src/buffer/manpage/escape.rs | fn escape
//@@ unit escape.escape tags=C16,C04 loops=2 desugar_for_into=1 desugar_for_into=2 byte_lits cfg=docgen
//@@ attr
#[verifier::exec_allows_no_decreases_clause]
#[verifier::spinoff_prover]
#[verifier::rlimit(60)]
//@@ spec
    ensures
        exists|frags: Seq<(Escape, Seq<u8>)>| final(out)@ == old(out)@ + #[trigger] esc_all(frags, ap, frags.len() as int).0, // #output_is_the_escaping_table_applied_fragment_by_fragment
//@@ preloop 1
proof { lemma_apostrophe_bytes(); }
let ghost mut done: Seq<(Escape, Seq<u8>)> = Seq::empty();
//@@ loop 1
        invariant
            APOSTROPHE.spec_bytes() == apos(),
            out@ == old(out)@ + esc_all(done, ap, done.len() as int).0,
            at_line_start == esc_all(done, ap, done.len() as int).1,
//@@ loopbody 1
proof { axiom_escape_eq(meta, Escape::SpecialNoNewline); axiom_escape_eq(meta, Escape::UnescapedAtNewline); axiom_apostrophes_eq(ap, Apostrophes::Handle); }
let ghost out_f = out@; let ghost a_f = at_line_start;
//@@ preloop 2
let ghost out0 = out@; let ghost a0 = at_line_start; let ghost bs = payload.spec_bytes();
//@@ loop 2
            invariant
                APOSTROPHE.spec_bytes() == apos(),
                <Escape as PartialEqSpec>::obeys_eq_spec(), <Apostrophes as PartialEqSpec>::obeys_eq_spec(),
                verif_it_2.obeys_prophetic_iter_laws(), verif_it_2.decrease() is Some,
                verif_all_2.len() == bs.len(), forall|i: int| 0 <= i < verif_all_2.len() ==> *#[trigger] verif_all_2[i] == bs[i],
                verif_it_2.remaining().len() <= verif_all_2.len(),
                verif_it_2.remaining() == verif_all_2.skip(verif_all_2.len() - verif_it_2.remaining().len()),
                out@ == out0 + esc_frag(meta, ap, bs, verif_all_2.len() - verif_it_2.remaining().len(), a0).0,
                at_line_start == esc_frag(meta, ap, bs, verif_all_2.len() - verif_it_2.remaining().len(), a0).1, // #line_start_flag_set_exactly_after_a_newline_written
            ensures verif_it_2.remaining().len() == 0,
            decreases verif_it_2.decrease()->Some_0,
//@@ loopbody 2
let ghost k = verif_all_2.len() - verif_it_2.remaining().len(); let ghost a_k = at_line_start; let ghost out_k = out@;
proof { axiom_escape_eq(meta, Escape::SpecialNoNewline); axiom_apostrophes_eq(ap, Apostrophes::Handle); assert(bs[k - 1] == c); assert(a_k == esc_frag(meta, ap, bs, k - 1, a0).1); }
//@@ insert before 1 `continue;`
proof { assert(out@ =~= out_k + esc_byte(meta, ap, c, a_k)); } // #each_byte_written_as_the_escaping_table_says
//@@ insert before 2 `continue;`
proof { assert(out@ =~= out_k + esc_byte(meta, ap, c, a_k)); } // #each_byte_written_as_the_escaping_table_says
//@@ insert before 1 `at_line_start = c ==`
proof { assert(out@ =~= out_k + esc_byte(meta, ap, c, a_k)); } // #each_byte_written_as_the_escaping_table_says

//@@ postloop 2
proof {
    lemma_esc_all_prefix(done, (meta, bs), ap, done.len() as int);
    let d2 = done.push((meta, bs));
    assert(d2[d2.len() - 1] == (meta, bs));
    assert(frag_out(meta, ap, bs, a_f).0 =~= out@.skip(out_f.len() as int));
    assert(frag_out(meta, ap, bs, a_f).1 == at_line_start);
    assert(out@ =~= out_f + out@.skip(out_f.len() as int));
    done = d2;
}
//@@ end

// ---- shell quoting (C15; feature = "autocomplete" only)
//@@ type src/complete_shell.rs | struct Shell
//@@ unit complete_shell.Shell tags= cfg=autocomplete
//@@ end

//@@ fn src/complete_shell.rs | impl Display for Shell | fn fmt
//@@ unit complete_shell.Shell.fmt tags=C15,C04 inherent loops=1 cfg=autocomplete
//@@ ret r
//@@ spec
        ensures r is Ok ==> fmt_out(*final(f)) == quoted(fmt_out(*old(f)), self.0@), // #writes_the_text_as_one_single_quoted_word
//@@ insert after 1 `for c in`
verif_it:
//@@ loop 1
            invariant fmt_out(*f) == q_acc(fmt_out(*old(f)).push('\''), self.0@, verif_it.index@ as int),
//@@ loopbody 1
proof { reveal_strlit("'\\''"); assert("'\\''"@ =~= q_lit()); }
//@@ end

// ---- adjacent groups (C19)
//@@ type src/structs.rs | struct ParseAdjacent
//@@ unit structs.ParseAdjacent tags=
//@@ end

impl Meta {
    /// assumed: bpaf usage invariant ("adjacent should start with a required argument", enforced by check_invariants);
    /// the item itself is uninterpreted
    #[verifier::external_body]
    pub fn first_item(meta: &Meta) -> (r: Option<&Item>)
        ensures r is Some,
    { unimplemented!() }
}

impl State {
    /// assumed contract (iterator-adapter code; checked within a bound by Kani unit K01.adjacently_available_from)
    #[verifier::external_body]
    pub fn adjacently_available_from(&self, start: usize) -> (r: Range<usize>)
        requires start <= self.item_state.len(),
        ensures
            r.start == start && start <= r.end <= self.item_state.len(),
            forall|i: int| start <= i < r.end ==> present(#[trigger] self.item_state[i]),
            r.end < self.item_state.len() ==> !present(self.item_state[r.end as int]),
    { unimplemented!() }

    /// assumed contract (iterator-adapter code; checked within a bound by Kani unit K01.adjacent_scope)
    #[verifier::external_body]
    pub fn adjacent_scope(&self, original: &State) -> (r: Option<Range<usize>>)
        requires self.item_state.len() == original.item_state.len(), self.scope.start <= self.item_state.len(), self.items.len() == self.item_state.len(),
        ensures
            r matches Some(sc) ==> {
                &&& sc.start == self.scope.start && sc.start <= sc.end < self.item_state.len()
                &&& both_present(*self, *original, sc.end as int)
                &&& forall|j: int| sc.start <= j < sc.end ==> !#[trigger] both_present(*self, *original, j)
                &&& sc != self.scope
            },
            r is None ==> {
                ||| self.items.len() == 0
                ||| forall|j: int| self.scope.start <= j ==> !#[trigger] both_present(*self, *original, j)
                ||| (both_present(*self, *original, self.scope.end as int) && self.scope.start <= self.scope.end
                     && forall|j: int| self.scope.start <= j < self.scope.end ==> !#[trigger] both_present(*self, *original, j))
            },
    { unimplemented!() }
}

//@@ fn src/structs.rs | impl Parser for ParseAdjacent | fn eval
//@@ unit structs.ParseAdjacent.eval tags=C19,C05,C10,C04 loops=2 desugar_for=1
//@@ members
    /// the inner parser of a group keeps the scope it is given and consumes only inside it (true for sequences of flags,
    /// arguments and positionals; an assumption about the group's members, see DESIGN.md)
    open spec fn pwf(&self) -> bool {
        &&& self.inner.pwf()
        &&& forall|pre: State, r: Result<T, Error>, post: State| #[trigger] self.inner.rel(pre, r, post) && pre.wf() && step(pre, post)
                ==> post.scope == pre.scope && in_scope_only(pre, post)
    }
    /// success: the scope is handed back unchanged and what was consumed is one contiguous run of previously available
    /// items inside it; failure: the scope is handed back unchanged as well
    open spec fn rel(&self, pre: State, r: Result<T, Error>, post: State) -> bool {
        &&& post.scope == pre.scope // #scope_restored
        &&& r is Ok ==> exists|s: int, e: int| pre.scope.start <= s <= e && #[trigger] consumed_block(pre, post, s, e) // #one_contiguous_block
        &&& r is Ok ==> forall|i: int| 0 <= i < pre.item_state.len() && present(#[trigger] pre.item_state[i]) && !present(post.item_state[i]) ==> i < pre.scope.end // #block_inside_the_scope
    }
//@@ loop 1
            invariant
                self.pwf(),
                *args == *old(args), args.wf(),
                original_scope == args.scope,
                verif_it_1.args == *args, verif_it_1.args.scope.start <= verif_it_1.cur, 1 <= verif_it_1.width <= 2,
                best_args.wf(), step(*old(args), best_args),
            decreases args.scope.end as int + 1 - verif_it_1.cur as int,
//@@ preloop 2
let ghost mut g_retried = false;
proof {
    let l = args.item_state@;
    lemma_count_le(l, start as int, original_scope.end as int);
    if original_scope.end - start > before {
        // some item of [start, scope end) is already consumed: the scope was trimmed to the run of available items from `start`
        if this_arg.scope.end >= original_scope.end {
            lemma_count_split(l, start as int, original_scope.end as int, this_arg.scope.end as int);
            assert forall|i: int| start <= i < original_scope.end implies present(#[trigger] l[i]) by {}
            assert(count_present(l, start as int, original_scope.end as int) == original_scope.end - start) by {
                lemma_count_all_present(l, start as int, original_scope.end as int);
            }
        }
        assert(run_split(*args, start as int, this_arg.scope.end as int, this_arg.scope.end as int));
    } else {
        lemma_count_full(l, start as int, original_scope.end as int);
        assert(run_split(*args, start as int, original_scope.end as int, original_scope.end as int));
    }
}
//@@ loop 2
                invariant_except_break
                    this_arg.wf(), this_arg.items == args.items, this_arg.item_state == args.item_state,
                    this_arg.scope.start == start, this_arg.comp_eq(*args),
                    run_then_holes(*args, start as int, this_arg.scope.end as int), // #attempted_block_is_a_run_of_available_items
                    forall|i: int| original_scope.end <= i < this_arg.scope.end ==> !present(#[trigger] args.item_state[i]), // #block_never_reaches_available_items_beyond_the_scope
                    g_retried ==> this_arg.scope.end < args.item_state.len() && present(args.item_state[this_arg.scope.end as int]),
                invariant
                    self.pwf(),
                    *args == *old(args), args.wf(), original_scope == args.scope,
                    best_args.wf(), step(*old(args), best_args),
                    verif_it_1.args == *args, verif_it_1.args.scope.start <= verif_it_1.cur, 1 <= verif_it_1.width <= 2,
                    args.scope.start <= start < args.scope.end,
                    before == count_present(args.item_state@, start as int, original_scope.end as int), // #before_counts_the_items_up_to_the_original_scope_end
                decreases (if g_retried { 0int } else { 1int }), this_arg.scope.end,
//@@ insert before 1 `match self.inner.eval(&mut this_arg) {`
let ghost g_before_eval = this_arg;
//@@ insert after 1 `this_arg.set_scope(adj_scope);`
proof {
    // the new scope ends at the first item neither this attempt nor anybody before it consumed
    let m = choose|m: int| run_split(*args, start as int, m, g_before_eval.scope.end as int);
    let off = adj_scope.end as int;
    assert forall|i: int| g_before_eval.scope.end <= i < off implies !present(#[trigger] args.item_state[i]) by {
        assert(!both_present(g_post, *args, i));
    }
    if off <= m { assert(run_split(*args, start as int, off, off)); } else { assert(run_split(*args, start as int, m, off)); }
    g_retried = true;
}
//@@ insert before 1 `if let Some(adj_scope) = this_arg.adjacent_scope(args) {`
let ghost g_post = this_arg;
//@@ insert before 1 `let consumed = before - this_arg.len();`
proof {
    lemma_step_trans(*args, g_before_eval, this_arg);
    let l = args.item_state@;
    let e = this_arg.scope.end as int;
    lemma_count_mono(l, this_arg.item_state@, start as int, e);
    if e <= original_scope.end {
        lemma_count_split(l, start as int, e, original_scope.end as int);
    } else {
        lemma_count_split(l, start as int, original_scope.end as int, e);
        lemma_count_holes(l, original_scope.end as int, e);
    }
}
//@@ insert before 1 `std::mem::swap(args, &mut this_arg);`
let ghost g_m: int = choose|m: int| run_split(*args, start as int, m, g_before_eval.scope.end as int);
let ghost g_led = this_arg.item_state@;
let ghost g_pre = *args;
proof {
    lemma_step_trans(*args, g_before_eval, this_arg);
    assert forall|i: int| start <= i < g_m implies !present(#[trigger] this_arg.item_state[i]) by {
        assert(!both_present(this_arg, *args, i));
    }
    assert(consumed_block(*args, this_arg, start as int, g_m));
    assert(consumed_block(g_pre, this_arg, start as int, g_m));
    if g_m > original_scope.end { assert(present(args.item_state[original_scope.end as int])); }
}
//@@ insert before 1 `return Ok(res);`
proof {
    assert(args.item_state@ == g_led);
    assert(g_pre == *old(args));
    assert forall|i: int| 0 <= i < old(args).item_state.len() && present(#[trigger] old(args).item_state[i]) && !present(args.item_state[i]) implies start <= i < g_m by {
        assert(present(g_pre.item_state[i]) && !present(g_led[i]));
    }
    assert forall|i: int| start <= i < g_m implies present(#[trigger] old(args).item_state[i]) && !present(args.item_state[i]) by {
        assert(present(g_pre.item_state[i]) && !present(g_led[i]));
    }
    assert(consumed_block(*old(args), *args, start as int, g_m));
}
//@@ also fn meta external_body
//@@ end


// ---- entry point (C11, C01)
//@@ fn src/info.rs | impl OptionParser | fn run_inner
//@@ unit info.OptionParser.run_inner tags=C11,C10,C20,C09
//@@ ret r
//@@ spec
        requires self.inner.pwf(), self.info.pwf(),
        ensures
            r is Ok ==> exists|pre: State, post: State| pre.wf() && pre.scope.start == 0 && pre.scope.end == pre.items.len()
                && (no_comp(pre) ==> dd_rule(pre.items@, pre.item_state@))
                && #[trigger] run_rel(*self, pre, r, post), // #a_value_only_through_run_subparser_on_the_tokenised_line
//@@ end

// ---------------------------------------------------------------- feature = "autocomplete" only
//@@ fn src/args.rs | mod inner | impl State | fn comp_mut
//@@ unit args.State.comp_mut tags=C20
//@@ ret r
//@@ spec
        ensures
            r is Some == old(self).comp is Some, // #some_iff_completion_mode
            final(self).same_but_comp(*old(self)), // #only_comp_reachable_through_the_borrow
            match r {
                Some(c) => old(self).comp == Some(*c) && final(self).comp == Some(*final(c)),
                None => *final(self) == *old(self),
            },
//@@ end

//@@ fn src/args.rs | mod inner | impl State | fn comp_ref
//@@ unit args.State.comp_ref tags=C20
//@@ ret r
//@@ spec
        ensures r is Some == self.comp is Some, // #some_iff_completion_mode
//@@ end

//@@ fn src/args.rs | mod inner | impl State | fn swap_comps
//@@ unit args.State.swap_comps tags=C20,C14
//@@ spec
        ensures
            final(self).same_but_comp(*old(self)) && final(other).same_but_comp(*old(other)), // #only_comp_moves
            final(self).comp == old(other).comp && final(other).comp == old(self).comp,
//@@ end

//@@ type src/complete_shell.rs | enum ShellComp
//@@ unit complete_shell.ShellComp tags= derive_copy cfg=autocomplete
//@@ end

//@@ type src/complete_gen.rs | struct CompExtra
//@@ unit complete_gen.CompExtra tags= derive_clone cfg=autocomplete
//@@ end

//@@ type src/complete_gen.rs | enum Comp
//@@ unit complete_gen.Comp tags= derive_clone cfg=autocomplete
//@@ end

//@@ type src/complete_gen.rs | struct Complete
//@@ unit complete_gen.Complete tags= derive_clone cfg=autocomplete
//@@ end

//@@ fn src/complete_gen.rs | impl Complete | fn new
//@@ unit complete_gen.Complete.new tags=C14 cfg=autocomplete
//@@ ret r
//@@ spec
        ensures r.comps@.len() == 0 && r.output_rev == output_rev && !r.no_pos_ahead, // #starts_without_candidates
//@@ end

//@@ fn src/complete_run.rs | impl ArgScanner | fn done
//@@ unit complete_run.ArgScanner.done tags=C14,C20 cfg=autocomplete
//@@ ret r
//@@ spec
        ensures
            r is Some == self.revision is Some, // #completion_mode_iff_the_marker_was_seen
            r matches Some(c) ==> c.comps@.len() == 0,
//@@ end

//@@ fn src/complete_gen.rs | impl Complete | fn swap_comps
//@@ unit complete_gen.Complete.swap_comps tags=C14,C20 cfg=autocomplete
//@@ spec
        ensures
            final(self).comps@ == old(other)@ && final(other)@ == old(self).comps@, // #only_the_candidate_list_moves
            final(self).output_rev == old(self).output_rev && final(self).no_pos_ahead == old(self).no_pos_ahead,
//@@ end

#[cfg(feature = "autocomplete")]
impl crate::complete_gen::Complete {
    #[verifier::external_body]
    pub fn extend_comps(&mut self, comps: Vec<crate::complete_gen::Comp>) { unimplemented!() }
}

//@@ fn src/args.rs | mod inner | impl State | fn touching_last_remove
//@@ unit args.State.touching_last_remove tags=C20,C14
//@@ ret r
//@@ spec
        requires
            self.wf(),
        ensures
            self.comp is None ==> !r, // #false_outside_completion_mode
            r ==> self.items.len() > 0 && self.current == Some((self.items.len() - 1) as usize), // #only_when_the_last_item_was_just_consumed
//@@ end

//@@ fn src/args.rs | impl State | fn swap_comps_with
//@@ unit args.State.swap_comps_with tags=C20,C14
//@@ spec
        ensures
            final(self).same_but_comp(*old(self)), // #only_comp_touched
            comp_inert(*old(self), *final(self)),
            old(self).comp is None ==> *final(self) == *old(self) && final(comps)@ == old(comps)@, // #inert_outside_completion_mode
            old(self).comp matches Some(k) ==> final(self).comp is Some && final(self).comp->Some_0.comps@ == old(comps)@ && final(comps)@ == k.comps@
                && final(self).comp->Some_0.output_rev == k.output_rev && final(self).comp->Some_0.no_pos_ahead == k.no_pos_ahead, // #candidate_lists_change_places
//@@ end

// completion hooks (src/complete_gen.rs): real bodies; each appends exactly one candidate built from the declared names
//@@ fn src/complete_gen.rs | impl State | fn push_flag
//@@ unit complete_gen.State.push_flag tags=C14,C20 cfg=autocomplete
//@@ spec
        ensures
            first_names(*named) is Err ==> pushes_nothing(*old(self), *final(self)), // #an_item_without_a_name_is_never_offered
            old(self).comp is None ==> *final(self) == *old(self), // #inert_outside_completion_mode
            old(self).comp is Some && first_names(*named) is Ok ==> exists|c: Comp| #[trigger] pushes_candidate(*old(self), *final(self), c)
                && c is Flag && c->Flag_name == first_names(*named)->Ok_0 && c->Flag_extra.depth == old(self).path.len() && c->Flag_extra.group is None, // #offers_the_declared_name_at_the_current_command_depth
//@@ atend
proof { if old(self).comp is Some && first_names(*named) is Ok { assert(pushes_candidate(*old(self), *self, self.comp->Some_0.comps@.last())); } }
//@@ end

//@@ fn src/complete_gen.rs | impl State | fn push_argument
//@@ unit complete_gen.State.push_argument tags=C14,C20 cfg=autocomplete
//@@ spec
        ensures
            first_names(*named) is Err ==> pushes_nothing(*old(self), *final(self)), // #an_item_without_a_name_is_never_offered
            old(self).comp is None ==> *final(self) == *old(self), // #inert_outside_completion_mode
            old(self).comp is Some && first_names(*named) is Ok ==> exists|c: Comp| #[trigger] pushes_candidate(*old(self), *final(self), c)
                && c is Argument && c->Argument_name == first_names(*named)->Ok_0 && c->Argument_metavar == metavar && c->Argument_extra.depth == old(self).path.len(), // #offers_the_declared_name_and_metavariable
//@@ atend
proof { if old(self).comp is Some && first_names(*named) is Ok { assert(pushes_candidate(*old(self), *self, self.comp->Some_0.comps@.last())); } }
//@@ end

//@@ fn src/complete_gen.rs | impl State | fn push_metavar
//@@ unit complete_gen.State.push_metavar tags=C14,C20 cfg=autocomplete
//@@ spec
        ensures
            old(self).comp is None ==> *final(self) == *old(self), // #inert_outside_completion_mode
            old(self).comp is Some ==> exists|c: Comp| #[trigger] pushes_candidate(*old(self), *final(self), c)
                && c is Metavariable && c->Metavariable_meta == meta && c->Metavariable_is_argument == is_argument && c->Metavariable_extra.depth == old(self).path.len(), // #offers_the_metavariable_placeholder
//@@ atend
proof { if old(self).comp is Some { assert(pushes_candidate(*old(self), *self, self.comp->Some_0.comps@.last())); } }
//@@ end

//@@ fn src/complete_gen.rs | impl State | fn push_command
//@@ unit complete_gen.State.push_command tags=C14,C20 cfg=autocomplete
//@@ spec
        ensures
            old(self).comp is None ==> *final(self) == *old(self), // #inert_outside_completion_mode
            old(self).comp is Some ==> exists|c: Comp| #[trigger] pushes_candidate(*old(self), *final(self), c)
                && c is Command && c->Command_name == name && c->Command_short == short && c->Command_extra.depth == old(self).path.len(), // #offers_the_command_name
//@@ atend
proof { if old(self).comp is Some { assert(pushes_candidate(*old(self), *self, self.comp->Some_0.comps@.last())); } }
//@@ end

//@@ fn src/complete_gen.rs | impl State | fn clear_comps
//@@ unit complete_gen.State.clear_comps tags=C14,C20 cfg=autocomplete
//@@ spec
        ensures
            final(self).same_but_comp(*old(self)), old(self).comp is None ==> *final(self) == *old(self),
            old(self).comp matches Some(k) ==> final(self).comp is Some && final(self).comp->Some_0.comps@.len() == 0
                && final(self).comp->Some_0.output_rev == k.output_rev && final(self).comp->Some_0.no_pos_ahead == k.no_pos_ahead, // #drops_every_candidate_collected_so_far
//@@ end

//@@ fn src/complete_gen.rs | impl State | fn push_pos_sep
//@@ unit complete_gen.State.push_pos_sep tags=C14,C20 cfg=autocomplete
//@@ spec
        ensures
            old(self).comp is None ==> *final(self) == *old(self), // #inert_outside_completion_mode
            old(self).comp is Some ==> exists|c: Comp| #[trigger] pushes_candidate(*old(self), *final(self), c)
                && c is Value && !c->Value_is_argument && c->Value_extra.depth == old(self).path.len(), // #offers_the_separator_as_a_positional_value
//@@ atend
proof { if old(self).comp is Some { assert(pushes_candidate(*old(self), *self, self.comp->Some_0.comps@.last())); } }
//@@ end

//@@ fn src/args.rs | mod inner | impl State | fn check_no_pos_ahead
//@@ unit args.State.check_no_pos_ahead tags=C14,C20 cfg=autocomplete
//@@ ret r
//@@ spec
        ensures r == (self.comp is Some && self.comp->Some_0.no_pos_ahead), // #false_outside_completion_mode
//@@ insert after 1 `|c`
: &crate::complete_gen::Complete
//@@ insert after 1 `|c|`
-> (b: bool) ensures b == c.no_pos_ahead {
//@@ insert after 1 `|c| c.no_pos_ahead`
}
//@@ end

//@@ fn src/args.rs | mod inner | impl State | fn set_no_pos_ahead
//@@ unit args.State.set_no_pos_ahead tags=C14,C20 cfg=autocomplete
//@@ spec
        ensures
            final(self).same_but_comp(*old(self)), old(self).comp is None ==> *final(self) == *old(self), // #inert_outside_completion_mode
            old(self).comp matches Some(k) ==> final(self).comp is Some && final(self).comp->Some_0.comps@ == k.comps@
                && final(self).comp->Some_0.output_rev == k.output_rev && final(self).comp->Some_0.no_pos_ahead, // #only_the_marker_is_set
//@@ end

// assumed: the completion hooks of src/complete_gen.rs touch nothing but `comp`, and nothing at all outside completion mode
#[cfg(feature = "autocomplete")]
impl State {
    #[verifier::external_body]
    pub fn push_with_group(&mut self, group: &Option<String>, comps: &mut Vec<crate::complete_gen::Comp>)
        ensures final(self).same_but_comp(*old(self)), old(self).comp is None ==> *final(self) == *old(self), old(self).comp is Some ==> final(self).comp is Some,
    { unimplemented!() }
    #[verifier::external_body]
    pub fn check_complete(&self) -> (r: Option<String>)
        ensures self.comp is None ==> r is None,
    { unimplemented!() }
}
#[cfg(feature = "autocomplete")]
impl Doc {
    #[verifier::external_body]
    pub fn to_completion(&self) -> Option<String> { unimplemented!() }
}

}


//@@ include lemmas.rs.tpl

} // verus!
fn main() {}
