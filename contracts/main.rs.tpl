// GENERATED from /verif/contracts/*.tpl and /repo/src — do not edit.
#![allow(unused_imports, dead_code, unused_variables, unused_mut, unreachable_patterns, unused_parens)]
#![feature(allocator_api)]
use vstd::prelude::*;
use std::ffi::OsString;
use std::ops::Range;
use std::rc::Rc;

verus! {

pub mod prelude {
    use super::*;

    #[verifier::external_type_specification]
    #[verifier::external_body]
    pub struct ExOsString(OsString);
}

pub mod spec {
    use super::*;
    use super::real::*;

    pub open spec fn present(st: ItemState) -> bool { !(st is Parsed) }

    /// number of present (not yet consumed) ledger entries with index in [lo, hi)
    pub open spec fn count_present(l: Seq<ItemState>, lo: int, hi: int) -> nat
        decreases hi - lo
    {
        if lo >= hi { 0 } else {
            count_present(l, lo, hi - 1) + (if 0 <= hi - 1 < l.len() && present(l[hi - 1]) { 1nat } else { 0nat })
        }
    }

    impl State {
        /// representation invariant of the consumption ledger
        pub open spec fn wf(&self) -> bool {
            &&& self.item_state.len() == self.items.len()
            &&& self.scope.start <= self.scope.end <= self.items.len()
            &&& self.remaining == count_present(self.item_state@, self.scope.start as int, self.scope.end as int)
        }
        /// item i is in scope and not consumed yet
        pub open spec fn avail(&self, i: int) -> bool {
            self.scope.start <= i < self.scope.end && 0 <= i < self.item_state.len() && present(self.item_state[i])
        }
    }

    impl<'a> ArgsIter<'a> {
        pub open spec fn wf(&self) -> bool {
            self.args.wf() && self.args.scope.start <= self.cur
        }
    }
}

pub mod lemmas {
    use super::*;
    use super::real::*;
    use super::spec::*;

    pub broadcast proof fn lemma_count_update(l: Seq<ItemState>, lo: int, hi: int, i: int, v: ItemState)
        requires 0 <= i < l.len(),
        ensures #[trigger] count_present(l.update(i, v), lo, hi)
            == count_present(l, lo, hi)
               - (if lo <= i < hi && present(l[i]) { 1int } else { 0int })
               + (if lo <= i < hi && present(v) { 1int } else { 0int }),
        decreases hi - lo,
    {
        if lo < hi {
            lemma_count_update(l, lo, hi - 1, i, v);
        }
    }

    pub broadcast proof fn lemma_count_witness(l: Seq<ItemState>, lo: int, hi: int, i: int)
        requires lo <= i < hi, 0 <= i < l.len(), #[trigger] present(l[i]),
        ensures #[trigger] count_present(l, lo, hi) >= 1,
        decreases hi - lo,
    {
        if i < hi - 1 {
            lemma_count_witness(l, lo, hi - 1, i);
        }
    }

    pub broadcast group ledger {
        lemma_count_update,
        lemma_count_witness,
    }
}

pub mod real {
    use super::spec::*;
    broadcast use super::lemmas::ledger;
    use super::*;
    use super::prelude::*;

//@@ type src/args.rs | enum ItemState
//@@ unit args.ItemState tags=
//@@ end

//@@ fn src/args.rs | impl ItemState | fn parsed
//@@ unit args.ItemState.parsed tags=C05,C07
//@@ ret r
//@@ spec
        ensures r == !present(*self), r == (self is Parsed) // #parsed_iff_Parsed
//@@ end

//@@ fn src/args.rs | impl ItemState | fn present
//@@ unit args.ItemState.present tags=C05,C07
//@@ ret r
//@@ spec
        ensures r == present(*self), r == !(self is Parsed) // #present_iff_not_Parsed
//@@ end


//@@ type src/arg.rs | enum Arg
//@@ unit arg.Arg tags=
//@@ end

//@@ type src/args.rs | mod inner | struct State
//@@ unit args.State tags= derive_clone
//@@ end

//@@ type src/args.rs | mod inner | struct ArgsIter
//@@ unit args.ArgsIter tags=
//@@ end

//@@ fn src/args.rs | mod inner | impl State | fn present
//@@ unit args.State.present tags=C05
//@@ ret r
//@@ spec
        ensures r == (if ix < self.item_state.len() { Some(!(self.item_state[ix as int] is Parsed)) } else { None }) // #present_spec
//@@ end

//@@ fn src/args.rs | mod inner | impl State | fn depth
//@@ unit args.State.depth tags=C08
//@@ ret r
//@@ spec
        ensures r == self.path.len()
//@@ end

//@@ fn src/args.rs | mod inner | impl State | fn remove
//@@ unit args.State.remove tags=C05,C01,C04
//@@ spec
        requires old(self).wf(),
        ensures
            final(self).wf(), // #preserves_wf
            final(self).items == old(self).items, // #frame_items
            final(self).scope == old(self).scope, // #frame_scope
            final(self).path == old(self).path, // #frame_path
            old(self).avail(index as int) ==> {
                &&& final(self).item_state@ == old(self).item_state@.update(index as int, ItemState::Parsed) // #marks_exactly_index
                &&& final(self).remaining == old(self).remaining - 1 // #remaining_decremented
                &&& final(self).current == Some(index) // #current_set
            },
            !old(self).avail(index as int) ==> *final(self) == *old(self), // #noop_when_unavailable
//@@ end

//@@ fn src/args.rs | mod inner | impl State | fn get
//@@ unit args.State.get tags=C05,C01
//@@ ret r
//@@ spec
        requires self.wf(),
        ensures
            self.avail(ix as int) ==> r == Some(&self.items[ix as int]), // #some_iff_available
            !self.avail(ix as int) ==> r is None, // #none_when_unavailable
//@@ end

//@@ fn src/args.rs | mod inner | impl Iterator for ArgsIter | fn next
//@@ unit args.ArgsIter.next tags=C01,C03,C05,C04 inherent loops=1
//@@ ret r
//@@ spec
        requires old(self).wf(),
        ensures
            final(self).wf(), // #preserves_iter_wf
            final(self).args == old(self).args, // #frame_state
            r matches Some(p) ==> old(self).cur <= p.0, // #yields_at_or_after_cursor
            r matches Some(p) ==> old(self).args.avail(p.0 as int), // #yields_only_available
            r matches Some(p) ==> *p.1 == old(self).args.items[p.0 as int], // #yields_the_item_at_ix
            r matches Some(p) ==> forall|j: int| old(self).cur <= j < p.0 ==> !old(self).args.avail(j), // #yields_leftmost
            r matches Some(p) ==> final(self).cur == p.0 + 1, // #cursor_advances_past
            r is None ==> forall|j: int| old(self).cur <= j ==> !old(self).args.avail(j), // #none_means_nothing_available
//@@ loop 1
            invariant
                self.args == old(self).args,
                self.wf(),
                old(self).cur <= self.cur,
                forall|j: int| old(self).cur <= j < self.cur ==> !self.args.avail(j),
            decreases self.args.scope.end as int - self.cur as int,
//@@ end

}

} // verus!
fn main() {}
