// Tier (ii): property lemmas, stated from the text of properties.jsonl over the spec functions / relations
// that the real code is proved to refine (tier i).  If a denotation disagreed with a property, these fail.
pub mod props {
    use super::*;
    use super::prelude::*;
    use super::real::*;
    use super::spec::*;
    use super::lemmas::*;

//@@ lemma
//@@ unit lemma.C06.final_classes tags=C06,C09
    /// "present but its value fails conversion, a parse step or a guard => the whole run fails"; absence classes may be defaulted
    pub proof fn lemma_c06_final_classes(p: Option<usize>, s: String, g: &'static str, k: usize, m: Metavar, v: Vec<MissingItem>, n: &'static str)
        ensures
            !catchable(Message::ParseFailed(p, s)), // #conversion_failure_is_final
            !catchable(Message::GuardFailed(p, g)), // #guard_failure_is_final
            !catchable(Message::NoArgument(k, m)), // #missing_value_of_present_name_is_final
            !catchable(Message::StrictPos(k, m)), // #strict_positional_left_of_dashes_is_final
            catchable(Message::NonStrictPos(k, m)), // #non_strict_is_catchable
            catchable(Message::Missing(v)), // #absent_item_is_catchable
            catchable(Message::NoEnv(n)), // #unset_variable_is_catchable
    {}
//@@ end

//@@ lemma
//@@ unit lemma.C06.optional_defaults_only_on_absence tags=C06
    /// optional/many/some/count/last (all built on parse_option) produce "nothing" only from absence:
    /// either the inner parser succeeded without consuming, or it failed with a catchable error and,
    /// if that error is Missing, nothing had been consumed
    pub proof fn lemma_c06_optional_defaults_only_on_absence<T>(pre: State, len0: usize, ri: Result<T, Error>, mid: State, post: State, len1: usize)
        requires opt_case(pre, len0, false, ri, mid, Ok::<Option<T>, Error>(None), post, len1),
        ensures
            ri is Ok ==> mid.remaining >= len0, // #value_dropped_only_if_nothing_consumed
            ri is Err ==> catchable(ri->Err_0.0), // #only_catchable_errors_become_none
            ri is Err && ri->Err_0.0 is Missing ==> pre.remaining == mid.remaining, // #missing_only_if_nothing_consumed
            ri is Err ==> restored(pre, mid, post), // #state_restored
    {}
//@@ end

//@@ lemma
//@@ unit lemma.C06.invalid_propagates tags=C06
    /// a final (non catchable) inner error is returned unchanged unless `catch` was requested
    pub proof fn lemma_c06_invalid_propagates<T>(pre: State, len0: usize, e: Error, mid: State, r: Result<Option<T>, Error>, post: State, len1: usize)
        requires opt_case(pre, len0, false, Err::<T, Error>(e), mid, r, post, len1), !catchable(e.0),
        ensures r == Err::<Option<T>, Error>(e), // #same_error
    {}
//@@ end

//@@ lemma
//@@ unit lemma.C06.fallback_only_on_absence tags=C06
    /// fallback: a default value is produced only from a catchable inner failure; a final failure is returned unchanged
    pub proof fn lemma_c06_fallback<P: Parser<T>, T: Clone>(fb: ParseFallback<P, T>, pre: State, r: Result<T, Error>, post: State)
        requires fb.rel(pre, r, post),
        ensures
            exists|ri: Result<T, Error>, mid: State| #[trigger] fb.inner.rel(pre, ri, mid)
                && (ri is Ok ==> r == ri && post == mid) // #present_and_valid_passes_through
                && (ri is Err && !catchable(ri->Err_0.0) ==> r == ri) // #invalid_is_not_masked
                && (ri is Err ==> exists|mid2: State| restored(pre, mid2, post)), // #state_restored
    {}
//@@ end

//@@ lemma
//@@ unit lemma.C06.guard_text tags=C06
    /// guard failing => GuardFailed(position, declared message), which is final
    pub proof fn lemma_c06_guard_text<T, P: Parser<T>, F: Fn(&T) -> bool>(g: ParseGuard<P, F>, pre: State, t: T, post: State, r: Result<T, Error>)
        requires g.rel(pre, r, post), r is Err, g.inner.rel(pre, Ok::<T, Error>(t), post),
            forall|ri: Result<T, Error>| #[trigger] g.inner.rel(pre, ri, post) ==> ri == Ok::<T, Error>(t),
        ensures r->Err_0.0 == Message::GuardFailed(post.current, g.message) && !catchable(r->Err_0.0), // #guard_message_attached_and_final
    {}
//@@ end

//@@ lemma
//@@ unit lemma.C01.ok_means_all_consumed tags=C01,C05
    /// "Every other vector ... never yields a value": a value is returned only if nothing available is left in scope
    pub proof fn lemma_c01_ok_means_all_consumed<T>(p: OptionParser<T>, pre: State, v: T, post: State)
        requires run_rel(p, pre, Ok::<T, ParseFailure>(v), post),
        ensures
            forall|i: int| !#[trigger] post.avail(i), // #no_item_left
            exists|mid: State| #[trigger] p.inner.rel(pre, Ok::<T, Error>(v), mid), // #value_is_the_inner_parsers
    {}
//@@ end

//@@ lemma
//@@ unit lemma.C05.swallow_restores tags=C05
    /// "wrappers restore the pre-attempt state on caught failure"
    pub proof fn lemma_c05_swallow_restores<T>(pre: State, len0: usize, catch: bool, e: Error, mid: State, r: Result<Option<T>, Error>, post: State, len1: usize)
        requires opt_case(pre, len0, catch, Err::<T, Error>(e), mid, r, post, len1), r is Ok,
        ensures restored(pre, mid, post) && r == Ok::<Option<T>, Error>(None), // #state_is_pre_attempt_state
    {}
//@@ end

//@@ lemma
//@@ unit lemma.C05.choice_is_one_branch tags=C05,C07
    /// the state after or_else is the original, one branch's, or one branch's with conflict marks (which keep every item as present as the branch left it)
    pub proof fn lemma_c05_choice_is_one_branch(pre: State, a: State, ea: Option<Error>, b: State, eb: Option<Error>, out: Result<bool, Error>, post: State)
        requires or_case(pre, a, ea, b, eb, out, post),
        ensures
            post == pre || same_presence(post, a) || same_presence(post, b), // #never_a_mixture
    {}
//@@ end

//@@ lemma
//@@ unit lemma.C07.exclusive tags=C07
    /// equal depth, both branches succeed and they consumed different items: the winner is the branch that consumed the
    /// leftmost differing item (ties cannot happen at that index), and every item only the loser consumed is Conflict in the result
    pub proof fn lemma_c07_exclusive(pre: State, a: State, b: State, out: Result<bool, Error>, post: State, ix: int)
        requires
            or_case(pre, a, None, b, None, out, post),
            a.path.len() == b.path.len(),
            !(pre.remaining == a.remaining && pre.remaining == b.remaining),
            first_diff(a.item_state@, b.item_state@, ix),
        ensures
            out == Ok::<bool, Error>(!present(a.item_state[ix])), // #leftmost_consumer_wins
            out == Ok::<bool, Error>(true) ==> forall|i: int| 0 <= i < a.item_state.len() && i < b.item_state.len() && present(a.item_state[i]) && !present(b.item_state[i])
                    ==> #[trigger] post.item_state[i] == ItemState::Conflict(ix as usize), // #losers_items_marked_conflict
            out == Ok::<bool, Error>(false) ==> forall|i: int| 0 <= i < b.item_state.len() && i < a.item_state.len() && present(b.item_state[i]) && !present(a.item_state[i])
                    ==> #[trigger] post.item_state[i] == ItemState::Conflict(ix as usize),
    {
        assert forall|j: int| first_diff(a.item_state@, b.item_state@, j) implies j == ix by {
            if j < ix { assert(present(a.item_state@[j]) == present(b.item_state@[j])); }
            if ix < j { assert(present(a.item_state@[ix]) == present(b.item_state@[ix])); }
        }
    }
//@@ end

//@@ lemma
//@@ unit lemma.C07.first_listed_wins_ties tags=C07
    /// both succeed without either consuming anything: the alternative listed first is taken
    pub proof fn lemma_c07_tie(pre: State, a: State, b: State, out: Result<bool, Error>, post: State)
        requires or_case(pre, a, None, b, None, out, post), a.path.len() == b.path.len(),
            pre.remaining == a.remaining && pre.remaining == b.remaining,
        ensures out == Ok::<bool, Error>(true) && post == a, // #ties_go_to_first
    {}
//@@ end

//@@ lemma
//@@ unit lemma.C08.deeper_wins tags=C08,C07
    /// "deeper path wins between alternatives", success or not
    pub proof fn lemma_c08_deeper_wins(pre: State, a: State, ea: Option<Error>, b: State, eb: Option<Error>, out: Result<bool, Error>, post: State)
        requires or_case(pre, a, ea, b, eb, out, post), a.path.len() != b.path.len(),
        ensures
            a.path.len() > b.path.len() ==> post == a && (match ea { Some(e) => out == Err::<bool, Error>(e), None => out == Ok::<bool, Error>(true) }), // #deeper_first_branch
            a.path.len() < b.path.len() ==> post == b && (match eb { Some(e) => out == Err::<bool, Error>(e), None => out == Ok::<bool, Error>(false) }), // #deeper_second_branch
    {}
//@@ end

//@@ lemma
//@@ unit lemma.C09.posword_inert tags=C09
    /// items to the right of `--` are never a flag, an argument name, a value of a named argument, or a command name
    pub proof fn lemma_c09_posword_inert(named: NamedArg, adjacent: bool, w: OsString, word: &str)
        ensures
            !named.matches_spec(Arg::PosWord(w), adjacent), // #never_a_flag_or_argument_name
            value_word(Arg::PosWord(w)) is None, // #never_the_value_of_a_named_argument
            !cmd_matches(Arg::PosWord(w), word), // #never_a_command_name
            pos_word(Arg::PosWord(w)) == Some((true, w)), // #reaches_positionals_verbatim_marked_strict
    {}
//@@ end

//@@ lemma
//@@ unit lemma.C09.strictness tags=C09
    /// "A strict positional accepts only items from the right of --, a non_strict one only items from its left, an unrestricted one either"
    pub proof fn lemma_c09_strictness(position: Position, metavar: Metavar, pre: State, r: Result<OsString, Error>, post: State, i: int)
        requires pos_rel(position, metavar, pre, r, post), pre.first_pos_word(i),
        ensures
            ({
                let pw = pos_word(pre.items[i])->Some_0;
                &&& (position is Strict && !pw.0 ==> r is Err && r->Err_0.0 is StrictPos && !catchable(r->Err_0.0)) // #strict_rejects_left_side
                &&& (position is NonStrict && pw.0 ==> r is Err && r->Err_0.0 is NonStrictPos) // #non_strict_rejects_right_side
                &&& (position is Unrestricted ==> r == Ok::<OsString, Error>(pw.1)) // #unrestricted_accepts_either
                &&& (position is Strict && pw.0 ==> r == Ok::<OsString, Error>(pw.1))
                &&& (position is NonStrict && !pw.0 ==> r == Ok::<OsString, Error>(pw.1))
            }),
    {
        assert forall|j: int| pre.first_pos_word(j) implies j == i by {
            if j < i { assert(pre.avail(j)); }
            if i < j { assert(pre.avail(i)); }
        }
    }
//@@ end

//@@ lemma
//@@ unit lemma.C10.help_before_error tags=C10
    /// help flag available when the level finishes, the inner result is not a final output and the run would otherwise
    /// fail or has leftovers => stdout, never a value and never the error
    pub proof fn lemma_c10_help_before_error<T>(p: OptionParser<T>, pre: State, ri: Result<T, Error>, mid: State, r: Result<T, ParseFailure>, post: State)
        requires
            run_case(p, pre, ri, mid, r, post),
            inner_final(ri) is None,
            help_requested(p.info, mid),
            no_comp(mid),
        ensures
            r is Err && r->Err_0 is Stdout, // #help_wins_over_value_and_error
    {
        // the help item itself is an available leftover, so the Ok branch is impossible
        let i = choose|i: int| #[trigger] mid.avail(i) && p.info.help_arg.matches_spec(mid.items[i], false);
        assert(mid.avail(i));
    }
//@@ end

//@@ lemma
//@@ unit lemma.C10.inner_final_output_passes_through tags=C10,C08
    /// "help requested after the name describes the subcommand": an inner level's final output is returned untouched
    pub proof fn lemma_c10_inner_final<T>(p: OptionParser<T>, pre: State, ri: Result<T, Error>, mid: State, r: Result<T, ParseFailure>, post: State, f: ParseFailure)
        requires run_case(p, pre, ri, mid, r, post), inner_final(ri) == Some(f), f is Stdout,
        ensures r == Err::<T, ParseFailure>(f), // #inner_stdout_is_final
    {}
//@@ end

//@@ lemma
//@@ unit lemma.C10.sequence_keeps_inner_final_output tags=C10
    /// C10: "the outcome is ... stdout output ... describing the innermost subcommand entered, regardless of what else is
    /// missing": when a later field of a `construct!` sequence produced final stdout output (help of a subcommand that was
    /// entered), an earlier field that is merely missing must not replace it.
    /// This does NOT hold for the relation the real macro expansion refines (first failing field wins): known finding D11.
    pub proof fn lemma_c10_sequence_keeps_inner_final_output<TA, TB, A: Parser<TA>, B: Parser<TB>>(a: A, b: B, pre: State, r: Result<(TA, TB), Error>, post: State,
            ra: Result<TA, Error>, m1: State, rb: Result<TB, Error>, m2: State, f: ParseFailure)
        requires
            con2_rel(a, b, false, pre, r, post),
            a.rel(pre, ra, m1), b.rel(m1, rb, m2),
            forall|x: Result<TA, Error>, y: State| #[trigger] a.rel(pre, x, y) ==> x == ra && y == m1,
            forall|x: Result<TB, Error>, y: State| #[trigger] b.rel(m1, x, y) ==> x == rb && y == m2,
            rb is Err && rb->Err_0.0 == Message::ParseFailure(f) && f is Stdout,
        ensures
            r is Err && r->Err_0.0 == Message::ParseFailure(f), // #inner_help_wins_over_missing_outer_field
    {}
//@@ end

//@@ lemma
//@@ unit lemma.C02.spellings_agree tags=C02
    /// `--name value`, `--name=value`, `-n value`, `-n=value`, `-nvalue`: once tokenised into (Short|Long)(name, adj) followed by
    /// (Word|ArgWord)(v), the argument's value is the same v; `adjacent` accepts exactly the shapes whose key carries is_adj
    pub proof fn lemma_c02_spellings_agree(named: NamedArg, c: char, l: String, adj1: bool, adj2: bool, o1: OsString, o2: OsString, v: OsString)
        requires named.short@.contains(c), long_contains(named.long@, l),
        ensures
            named.matches_spec(Arg::Short(c, adj1, o1), false) && named.matches_spec(Arg::Long(l, adj2, o2), false), // #separate_and_attached_spellings_match
            value_word(Arg::Word(v)) == Some(v) && value_word(Arg::ArgWord(v)) == Some(v), // #value_bytes_identical
            named.matches_spec(Arg::Short(c, adj1, o1), true) == adj1, // #adjacent_iff_same_item
            named.matches_spec(Arg::Long(l, adj2, o2), true) == adj2,
    {}
//@@ end

//@@ lemma
//@@ unit lemma.C03.swap_invariance tags=C03
    /// swapping two neighbouring available items does not change whether a named consumer finds its item
    pub proof fn lemma_c03_swap(s: State, t: State, named: NamedArg, adjacent: bool, i: int)
        requires
            s.scope == t.scope, s.item_state.len() == t.item_state.len(), s.items.len() == t.items.len(), s.item_state.len() == s.items.len(),
            s.scope.start <= i, i + 1 < s.scope.end, i + 1 < s.items.len(),
            forall|j: int| #![trigger s.items[j]] #![trigger t.items[j]] #![trigger s.item_state[j]] #![trigger t.item_state[j]]
                0 <= j < s.items.len() && j != i && j != i + 1 ==> s.items[j] == t.items[j] && s.item_state[j] == t.item_state[j],
            s.items[i] == t.items[i + 1] && s.items[i + 1] == t.items[i],
            s.item_state[i] == t.item_state[i + 1] && s.item_state[i + 1] == t.item_state[i],
        ensures
            s.no_match(named, adjacent) == t.no_match(named, adjacent), // #found_iff_exists_is_order_independent
    {
        let perm = |j: int| if j == i { i + 1 } else if j == i + 1 { i } else { j };
        assert forall|j: int| #[trigger] t.avail(j) && s.no_match(named, adjacent) implies !named.matches_spec(t.items[j], adjacent) by {
            assert(s.avail(perm(j)));
        }
        assert forall|j: int| #[trigger] s.avail(j) && t.no_match(named, adjacent) implies !named.matches_spec(s.items[j], adjacent) by {
            assert(t.avail(perm(j)));
        }
    }
//@@ end

//@@ lemma
//@@ unit lemma.C20.inert_without_comp tags=C20
    /// "the feature-gated bookkeeping threaded through every parser is observationally inert outside completion mode":
    /// with `comp` None the autocomplete text's contracts collapse to the default configuration's
    pub proof fn lemma_c20_inert(pre: State, mid: State, post: State)
        requires no_comp(pre), no_comp(mid),
        ensures
            restored(pre, mid, post) ==> post == pre, // #swallowed_failure_restores_exactly
            unchanged(pre, post) ==> post == pre, // #hooks_do_nothing
            eqc(pre, post) && no_comp(post) ==> post == pre, // #modulo_comp_is_equality
            step(pre, post) ==> no_comp(post), // #completion_mode_never_switches_on
            forall|r: Result<u8, ParseFailure>| !completion_outcome(mid, r, post), // #no_completion_output
    {}
//@@ end

//@@ lemma
//@@ unit lemma.C11.codes tags=C11
    /// restated from the statement; the real table is error.ParseFailure.exit_code (tier i)
    pub proof fn lemma_c11_codes(f: ParseFailure)
        ensures (f is Stdout || f is Completion || f is Stderr), // #three_outcome_classes
    {}
//@@ end

//@@ lemma
//@@ unit lemma.C12.one_list_per_entry tags=C12
    /// C12 "lists every item ... and lists nothing else": the three item lists of `--help` partition the collected entries: an
    /// entry that is not inside an `anywhere` block is shown under exactly one of options / commands / positionals; inside
    /// such a block it is shown (once) iff it carries help text, and never under two lists
    pub proof fn lemma_c12_one_list_per_entry(items: Seq<HelpItem>, k: int)
        requires 0 <= k < items.len(),
        ensures
            !(listed_under(items, HiTy::Flag, k) && listed_under(items, HiTy::Command, k)), // #never_in_two_lists
            !(listed_under(items, HiTy::Flag, k) && listed_under(items, HiTy::Positional, k)),
            !(listed_under(items, HiTy::Command, k) && listed_under(items, HiTy::Positional, k)),
            is_bracket(items[k]) || !(block_at(items, k) is Anywhere) || described(items[k])
                ==> listed_under(items, HiTy::Flag, k) || listed_under(items, HiTy::Command, k) || listed_under(items, HiTy::Positional, k), // #every_entry_in_some_list
    {
    }
//@@ end

//@@ lemma
//@@ unit lemma.C16.roff_text_byte_is_guarded tags=C16 cfg=docgen
    /// C16 "help text, names and metavariables can never be interpreted as roff requests or escapes", per byte of the escaping
    /// table `escape` is proved to apply: user text of the page body (`Special*`) never puts `.` or `'` first at a line start; the
    /// line-start flag is set after every newline written; a request argument (`Spaces`) never contains a newline, and its spaces
    /// and backslashes are escaped; backslash and dash in text are escaped
    #[cfg(feature = "docgen")]
    #[verifier::spinoff_prover]
    #[verifier::rlimit(40)]
    pub proof fn lemma_c16_byte(meta: Escape, ap: Apostrophes, c: u8, at_start: bool)
        ensures
            esc_byte(meta, ap, c, at_start).len() > 0,
            body_meta(meta) && at_start ==> !ctl(esc_byte(meta, ap, c, at_start)[0]), // #text_byte_at_line_start_is_guarded
            body_meta(meta) ==> forall|p: int| 0 <= p < esc_byte(meta, ap, c, at_start).len() - 1 ==> esc_byte(meta, ap, c, at_start)[p] != 10, // #newline_only_as_the_last_byte_written
            (esc_byte(meta, ap, c, at_start).last() == 10) == esc_flag(meta, ap, c), // #line_start_flag_set_exactly_after_a_newline_written
            meta == Escape::Spaces ==> forall|p: int| 0 <= p < esc_byte(meta, ap, c, at_start).len() ==> esc_byte(meta, ap, c, at_start)[p] != 10, // #request_argument_stays_on_its_line
            meta == Escape::Spaces && (c == 32 || c == 92) ==> esc_byte(meta, ap, c, at_start) == seq![92u8, c], // #space_and_backslash_in_request_arguments_escaped
            body_meta(meta) && (c == 92 || c == 45) ==> esc_byte(meta, ap, c, at_start) == seq![92u8, c], // #backslash_and_dash_in_text_escaped
    {
        let e = esc_byte(meta, ap, c, at_start);
        if body_meta(meta) {
            let p1 = if at_start && (c == 46 || c == 39) { seq![92u8, 38u8] } else { Seq::<u8>::empty() };
            let p2 = if c == 92 || c == 45 { seq![92u8] } else { Seq::<u8>::empty() };
            let p3 = if ap == Apostrophes::Handle && c == 39 { apos() } else if meta == Escape::SpecialNoNewline && c == 10 { seq![32u8] } else { seq![c] };
            assert(e =~= p1 + p2 + p3);
            if c == 92 || c == 45 { assert(e =~= seq![92u8, c]); }
        }
    }
//@@ end

//@@ lemma
//@@ unit lemma.C16.roff_text_never_opens_a_request tags=C16 cfg=docgen
    /// C16 "every line starting with a control character is one of bpaf's own requests": a whole fragment of user text, whatever
    /// its bytes, never produces an output line that starts with `.` or `'`
    #[cfg(feature = "docgen")]
    #[verifier::spinoff_prover]
    #[verifier::rlimit(80)]
    pub proof fn lemma_c16_fragment(meta: Escape, ap: Apostrophes, bs: Seq<u8>, n: int, a: bool)
        requires body_meta(meta), 0 <= n <= bs.len(),
        ensures ({
            let (o, f) = esc_frag(meta, ap, bs, n, a);
            &&& (forall|p: int| 1 <= p < o.len() && o[p - 1] == 10 ==> !ctl(#[trigger] o[p])) // #no_request_character_after_a_newline
            &&& (a && o.len() > 0 ==> !ctl(o[0])) // #nor_at_the_start_when_the_fragment_starts_a_line
            &&& (if o.len() == 0 { f == a } else { f == (o.last() == 10) }) // #flag_tracks_line_starts_exactly
        }),
        decreases n,
    {
        if n > 0 {
            lemma_c16_fragment(meta, ap, bs, n - 1, a);
            let (o1, f1) = esc_frag(meta, ap, bs, n - 1, a);
            let e = esc_byte(meta, ap, bs[n - 1], f1);
            lemma_c16_byte(meta, ap, bs[n - 1], f1);
            let o = o1 + e;
            assert(esc_frag(meta, ap, bs, n, a).0 == o);
            assert forall|p: int| 1 <= p < o.len() && o[p - 1] == 10 implies !ctl(#[trigger] o[p]) by {
                if p < o1.len() {
                    assert(o[p] == o1[p] && o[p - 1] == o1[p - 1]);
                } else if p == o1.len() {
                    assert(o[p - 1] == o1.last());
                    assert(o[p] == e[0]);
                } else {
                    assert(o[p - 1] == e[p - 1 - o1.len()]);
                }
            }
            if o1.len() == 0 { assert(o =~= e); } else { assert(o[0] == o1[0]); }
            assert(o.last() == e.last());
        }
    }
//@@ end

//@@ lemma
//@@ unit lemma.C15.shell_word_is_data tags=C15
    pub proof fn lemma_sh_run_prefix(st: ShSt, a: Seq<char>, b: Seq<char>, n: int)
        requires 0 <= n <= a.len(),
        ensures sh_run(st, a + b, n) == sh_run(st, a, n),
        decreases n,
    {
        if n > 0 { lemma_sh_run_prefix(st, a, b, n - 1); assert((a + b)[n - 1] == a[n - 1]); }
    }
    pub proof fn lemma_sh_run_append(st: ShSt, a: Seq<char>, b: Seq<char>, k: int)
        requires 0 <= k <= b.len(),
        ensures sh_run(st, a + b, a.len() + k) == sh_run(sh_run(st, a, a.len() as int), b, k),
        decreases k,
    {
        if k == 0 {
            lemma_sh_run_prefix(st, a, b, a.len() as int);
        } else {
            lemma_sh_run_append(st, a, b, k - 1);
            assert((a + b)[a.len() + k - 1] == b[k - 1]);
        }
    }
    pub proof fn lemma_quoted_reads_back(s: Seq<char>, n: int)
        requires 0 <= n <= s.len(),
        ensures ({
            let w = q_acc(seq!['\''], s, n);
            sh_run(sh_start(), w, w.len() as int) == ShSt { in_q: true, esc: false, ok: true, out: s.take(n) }
        }),
        decreases n,
    {
        if n == 0 {
            let w = seq!['\''];
            assert(sh_run(sh_start(), w, 0) == sh_start());
            assert(s.take(0) =~= Seq::<char>::empty());
        } else {
            lemma_quoted_reads_back(s, n - 1);
            let acc = q_acc(seq!['\''], s, n - 1);
            let c = s[n - 1];
            let st = ShSt { in_q: true, esc: false, ok: true, out: s.take(n - 1) };
            assert(s.take(n) =~= s.take(n - 1).push(c));
            if c == '\'' {
                let l = q_lit();
                lemma_sh_run_append(sh_start(), acc, l, 4);
                assert(sh_run(st, l, 0) == st);
                assert(sh_run(st, l, 1) == ShSt { in_q: false, ..st });
                assert(sh_run(st, l, 2) == ShSt { in_q: false, esc: true, ..st });
                assert(sh_run(st, l, 3) == ShSt { in_q: false, esc: false, out: st.out.push('\''), ..st });
                assert(sh_run(st, l, 4) == ShSt { in_q: true, esc: false, out: st.out.push('\''), ..st });
            } else {
                let l = seq![c];
                assert(acc.push(c) =~= acc + l);
                lemma_sh_run_append(sh_start(), acc, l, 1);
                assert(sh_run(st, l, 0) == st);
            }
        }
    }
    /// C15 "every string ... is quoted so that the shell treats it as data": a POSIX shell reads what `Shell` writes as ONE complete
    /// word whose value is exactly the original text - for every string, nothing is executed, split, expanded or left unterminated
    pub proof fn lemma_c15_shell_word_is_data(s: Seq<char>)
        ensures ({
            let w = quoted(Seq::<char>::empty(), s);
            sh_run(sh_start(), w, w.len() as int) == ShSt { in_q: false, esc: false, ok: true, out: s } // #reads_back_as_one_word_with_the_same_text
        }),
    {
        lemma_quoted_reads_back(s, s.len() as int);
        let body = q_acc(seq!['\''], s, s.len() as int);
        assert(Seq::<char>::empty().push('\'') =~= seq!['\'']);
        assert(body.push('\'') =~= body + seq!['\'']);
        lemma_sh_run_append(sh_start(), body, seq!['\''], 1);
        let st = ShSt { in_q: true, esc: false, ok: true, out: s.take(s.len() as int) };
        assert(sh_run(st, seq!['\''], 0) == st);
        assert(s.take(s.len() as int) =~= s);
    }
//@@ end

//@@ lemma
//@@ unit lemma.C02.cluster_is_its_flags_one_by_one tags=C02
    /// C02 "`-abc` versus `-a -b -c` for flags ... are interchangeable (a cluster may end in a short argument with its value
    /// attached)": what disambiguate_short is proved to append for a cluster of pure flags is, item by item, what it appends for the
    /// one-letter words `-a`, `-b`, `-c` (same name, no attached value; only the remembered original text differs); and a cluster that
    /// ends in an argument name appends that name marked "value attached" followed by exactly the rest of the word as its value
    pub proof fn lemma_c02_cluster(new: Seq<Arg>, r: Option<Message>, base: int, short: String, fl: Seq<char>, ar: Seq<char>, os: OsString, j: int,
                                   one: Seq<Arg>, short1: String, os1: OsString, i: int)
        requires
            short@.len() >= 2, 0 <= j <= short@.len(),
            cluster_items(new, r, base, short@, short, fl, ar, os, j),
            forall|k: int| 0 <= k < j ==> pure_flag(#[trigger] short@[k], fl, ar),
            0 <= i < j,
            // every letter of the cluster is a declared name (otherwise the whole word is kept as a positional, by design)
            j == short@.len() || lists(fl, short@[j]) || lists(ar, short@[j]),
            short1@ == seq![short@[i]],
            cluster_items(one, None, base + i, short1@, short1, fl, ar, os1, 0),
        ensures
            one.len() == 1 && new.len() > i, // #one_item_per_flag
            new[i] matches Arg::Short(c, adj, _) && one[0] matches Arg::Short(c1, adj1, _) && c == c1 && adj == adj1 && !adj, // #same_item_as_the_separate_word
            (j < short@.len() && !lists(fl, short@[j]) && lists(ar, short@[j]) && j + 1 < short@.len())
                ==> (new[j] matches Arg::Short(c, adj, _) && c == short@[j] && adj) && new[j + 1] == Arg::Word(os_of_chars(short@.skip(j + 1))), // #trailing_argument_takes_the_rest_as_its_value
    {
        let n = short@.len() as int;
        assert(short1@.len() == 1 && short1@[0] == short@[i]);
        assert(one == seq![Arg::Short(short1@[0], false, os1)]);
        assert(one[0] == Arg::Short(short@[i], false, os1));
        if j == n {
            assert(flag_run(new, short@, n, os));
        } else if !lists(fl, short@[j]) && lists(ar, short@[j]) {
            assert(flag_run(new, short@, j, os));
        } else {
            assert(lists(fl, short@[j]));
            assert(flag_run(new, short@, j, os));
        }
    }
//@@ end

//@@ lemma
//@@ unit lemma.C14.hidden_items_offer_no_candidates tags=C14,C12
    /// C14 "hidden items ... do not appear": whatever a parser under `hide` would offer as a completion candidate is dropped - after
    /// it ran, the candidate list is what it was before (ParseHide::eval is proved to refine this relation, with the real
    /// swap_comps_with / Complete::swap_comps bodies)
    pub proof fn lemma_c14_hidden<T, P: Parser<T>>(h: ParseHide<P>, pre: State, r: Result<T, Error>, post: State)
        requires h.rel(pre, r, post),
        ensures same_candidates(pre, post), // #candidate_list_unchanged_by_a_hidden_parser
    {}
//@@ end

//@@ lemma
//@@ unit lemma.C12.shown_name_is_accepted tags=C12
    /// C12 "Every name shown is accepted by the parser at that level": the names a flag or argument is shown under (ParseFlag::meta /
    /// ParseArgument::meta are proved to show `first_names(named)`) are names its own eval looks for (`matches_spec`, the matcher
    /// take_flag / take_arg are proved to use): the short name as `-s`, the long name as `--long`
    pub proof fn lemma_c12_shown_name_is_accepted(named: NamedArg, m: Meta, os: OsString, typed: String)
        requires shows_names_of(m, named),
        ensures
            first_names(named) matches Ok(ShortLong::Short(c)) ==> named.matches_spec(Arg::Short(c, false, os), false), // #short_name_shown_is_matched
            first_names(named) matches Ok(ShortLong::Long(l)) && typed@ == l@ ==> named.matches_spec(Arg::Long(typed, false, os), false), // #long_name_shown_is_matched
            first_names(named) matches Ok(ShortLong::Both(c, l)) ==> named.matches_spec(Arg::Short(c, false, os), false) && (typed@ == l@ ==> named.matches_spec(Arg::Long(typed, false, os), false)),
    {
        match first_names(named) {
            Ok(ShortLong::Short(c)) => { assert(named.short@[0] == c); }
            Ok(ShortLong::Long(l)) => { assert(named.long@[0] == l); }
            Ok(ShortLong::Both(c, l)) => { assert(named.short@[0] == c); assert(named.long@[0] == l); }
            Err(_) => {}
        }
    }
//@@ end

//@@ lemma
//@@ unit lemma.C18.undeclared_variables_are_irrelevant tags=C18
    /// C18 "Variables not declared by the parser never influence the outcome": flag_rel / arg_rel (which ParseFlag::eval and
    /// take_argument are proved to refine) consult the environment only through `env_value(named.env)`; that value is the same in
    /// any two environments that agree on the declared names, and it is this run's environment read at the declared names only
    pub proof fn lemma_c18_env_frame(e1: spec_fn(&'static str) -> Option<OsString>, e2: spec_fn(&'static str) -> Option<OsString>, names: Seq<&'static str>)
        requires forall|i: int| 0 <= i < names.len() ==> e1(#[trigger] names[i]) == e2(names[i]),
        ensures env_value_in(e1, names) == env_value_in(e2, names), // #environments_that_agree_on_the_declared_names_give_the_same_value
        decreases names.len(),
    {
        if names.len() > 0 {
            let t = names.drop_first();
            assert(e1(names[0]) == e2(names[0]));
            assert forall|i: int| 0 <= i < t.len() implies e1(#[trigger] t[i]) == e2(t[i]) by { assert(t[i] == names[i + 1]); }
            lemma_c18_env_frame(e1, e2, t);
        }
    }
    pub proof fn lemma_c18_env_value_is_env_value_in(names: Seq<&'static str>)
        ensures env_value(names) == env_value_in(|k: &'static str| env_var(k), names), // #the_run_reads_its_environment_at_the_declared_names_only
        decreases names.len(),
    {
        if names.len() > 0 { lemma_c18_env_value_is_env_value_in(names.drop_first()); }
    }
//@@ end

//@@ lemma
//@@ unit lemma.C09.separator_is_never_delivered tags=C09
    /// C09 "the separator itself is never delivered as a value" and "everything after the first `--` is positional data": in the
    /// state State::construct is proved to build (`dd_rule`), and in every state reachable from it by parsers that keep the trait
    /// invariant `step` (same items, consumed stays consumed), the first `--` is not available to any consumer - and every
    /// consumer (take_flag, take_arg, take_cmd, take_positional_word: proved) only ever takes available items; every item after it is a
    /// PosWord (never matched as a name, command or value: lemma.C09.posword_inert), no item before it is
    pub proof fn lemma_c09_separator(s0: State, s: State, m: int)
        requires
            dd_rule(s0.items@, s0.item_state@),
            s.items == s0.items, s.item_state.len() == s0.item_state.len(),
            forall|i: int| 0 <= i < s0.item_state.len() && !present(#[trigger] s0.item_state[i]) ==> !present(s.item_state[i]),
            first_posword(s.items@, m),
        ensures
            !s.avail(m), // #the_separator_is_consumed_from_the_start_and_stays_consumed
            forall|i: int| m < i < s.items.len() ==> #[trigger] s.items[i] is PosWord, // #everything_after_it_is_positional_data
            forall|i: int| 0 <= i < m ==> !(#[trigger] s.items[i] is PosWord), // #nothing_before_it_is
    {
        assert(s0.item_state[m] is Parsed);
        assert(!present(s0.item_state[m]));
        assert forall|i: int| m < i < s.items.len() implies #[trigger] s.items[i] is PosWord by {
            assert(s0.items@[m] is PosWord);
            let a = s0.items@[m]; let b = s0.items@[i];
        }
    }
//@@ end
}
