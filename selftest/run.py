#!/usr/bin/env python3
"""Self-test of the machinery: apply small behaviour-changing edits to /repo's working tree (never committed),
run the checks that should notice, and restore the tree.  Usage: selftest/run.py [name-substring ...]"""
import json, os, subprocess, sys
HERE = os.path.dirname(os.path.abspath(__file__))
ROOT = os.path.dirname(HERE)
REPO = "/repo"
muts = json.load(open(os.path.join(HERE, "mutations.json")))
sel = sys.argv[1:]
results = []
for m in muts:
    if sel and not any(s in m["name"] for s in sel):
        continue
    path = os.path.join(REPO, m["file"])
    src = open(path).read()
    if src.count(m["old"]) != 1:
        print("SKIP %s: anchor occurs %d times" % (m["name"], src.count(m["old"])))
        continue
    try:
        open(path, "w").write(src.replace(m["old"], m["new"]))
        row = {"name": m["name"], "results": {}}
        for pid in m["expect"] + m.get("quiet", []):
            p = subprocess.run([os.path.join(ROOT, "check"), pid, "quick"], capture_output=True, text=True, cwd=ROOT,
                               env=dict(os.environ, VERIF_EVIDENCE_DIR=os.path.join(ROOT, "out", "selftest_evidence")))
            obl = [l.split(": ", 1)[1] for l in p.stdout.split("\n") if l.startswith("failed obligation")]
            row["results"][pid] = {"rc": p.returncode, "obligations": obl[:6]}
            want = 1 if pid in m["expect"] else 0
            flag = "ok " if p.returncode == want else "BAD"
            print("%s %-44s %s rc=%d %s" % (flag, m["name"], pid, p.returncode, ",".join(obl[:3])), flush=True)
            if p.returncode not in (0, 1):
                print("    " + "\n    ".join(p.stdout.strip().split("\n")[-6:]))
        results.append(row)
    finally:
        open(path, "w").write(src)
subprocess.run(["git", "-C", REPO, "status", "--short"])
json.dump(results, open(os.path.join(ROOT, "out", "selftest_results.json"), "w"), indent=1)
