#!/bin/sh
# offline setup: nothing to build; verify the tools are present
set -e
cd "$(dirname "$0")"
command -v verus >/dev/null
command -v python3 >/dev/null
mkdir -p out evidence
echo setup ok
